package interp

import (
	"go/token"
	"unsafe"
)

// sync/atomic with sequential semantics (one schedule; see DESIGN.md).
func init() {
	extraHooks = append(extraHooks, func(p *Program) {
		h := p.hooks
		valueCell := func(args []value) structure {
			cell := args[0].(*value)
			return (*cell).(structure)
		}
		h["(*sync/atomic.Value).Load"] = func(fr *frame, args []value) value {
			st := valueCell(args)
			if st[0] == nil {
				return iface{}
			}
			return st[0]
		}
		h["(*sync/atomic.Value).Store"] = func(fr *frame, args []value) value {
			st := valueCell(args)
			v := args[1].(iface)
			if v.t == nil {
				panic(targetPanic{iface{t: nil, v: "sync/atomic: store of nil value into Value"}})
			}
			st[0] = v
			return nil
		}
		h["(*sync/atomic.Value).Swap"] = func(fr *frame, args []value) value {
			st := valueCell(args)
			old := st[0]
			st[0] = args[1]
			if old == nil {
				return iface{}
			}
			return old
		}
		h["(*sync/atomic.Value).CompareAndSwap"] = func(fr *frame, args []value) value {
			st := valueCell(args)
			cur := st[0]
			if cur == nil {
				cur = iface{}
			}
			old := args[1].(iface)
			ci := cur.(iface)
			eq := false
			if ci.t == nil || old.t == nil {
				eq = ci.t == nil && old.t == nil
			} else if sameType(ci.t, old.t) {
				if b, ok := deepEq(ci.t, ci.v, old.v).(bool); ok {
					eq = b
				} else {
					panic(abort{AbortUnsupported, "atomic.Value.CompareAndSwap on symbolic values"})
				}
			}
			if eq {
				st[0] = args[2]
			}
			return eq
		}
		for _, ty := range []string{"Int32", "Int64", "Uint32", "Uint64", "Uintptr", "Pointer"} {
			h["sync/atomic.Load"+ty] = func(fr *frame, args []value) value { return *(args[0].(*value)) }
			h["sync/atomic.Store"+ty] = func(fr *frame, args []value) value { *(args[0].(*value)) = args[1]; return nil }
			h["sync/atomic.Swap"+ty] = func(fr *frame, args []value) value {
				p := args[0].(*value)
				old := *p
				*p = args[1]
				return old
			}
			h["sync/atomic.CompareAndSwap"+ty] = func(fr *frame, args []value) value {
				p := args[0].(*value)
				c := binop(token.EQL, nil, *p, args[1])
				if b, ok := c.(bool); ok {
					if b {
						*p = args[2]
					}
					return b
				}
				panic(abort{AbortUnsupported, "atomic CAS on symbolic values"})
			}
			if ty != "Pointer" {
				h["sync/atomic.Add"+ty] = func(fr *frame, args []value) value {
					p := args[0].(*value)
					*p = binop(token.ADD, nil, *p, args[1])
					return *p
				}
			}
		}
		// atomic.Pointer[T]: keep the *value in the v field as is
		ptrField := func(args []value) *value {
			cell := args[0].(*value)
			st := (*cell).(structure)
			return &st[len(st)-1]
		}
		h["(*sync/atomic.Pointer[T]).Load"] = func(fr *frame, args []value) value {
			f := ptrField(args)
			if p, ok := (*f).(*value); ok {
				return p
			}
			return (*value)(nil)
		}
		h["(*sync/atomic.Pointer[T]).Store"] = func(fr *frame, args []value) value {
			*ptrField(args) = args[1]
			return nil
		}
		h["(*sync/atomic.Pointer[T]).Swap"] = func(fr *frame, args []value) value {
			f := ptrField(args)
			old, _ := (*f).(*value)
			*f = args[1]
			return old
		}
		h["(*sync/atomic.Pointer[T]).CompareAndSwap"] = func(fr *frame, args []value) value {
			f := ptrField(args)
			cur, _ := (*f).(*value)
			if cur == args[1].(*value) {
				*f = args[2]
				return true
			}
			return false
		}
	})
}

var _ = unsafe.Pointer(nil)
