// Copyright 2013 The Go Authors. All rights reserved.
// Use of this source code is governed by a BSD-style
// license that can be found in the LICENSE file.

// Package ssa/interp defines an interpreter for the SSA
// representation of Go programs.
//
// This interpreter is provided as an adjunct for testing the SSA
// construction algorithm.  Its purpose is to provide a minimal
// metacircular implementation of the dynamic semantics of each SSA
// instruction.  It is not, and will never be, a production-quality Go
// interpreter.
//
// The following is a partial list of Go features that are currently
// unsupported or incomplete in the interpreter.
//
// * Unsafe operations, including all uses of unsafe.Pointer, are
// impossible to support given the "boxed" value representation we
// have chosen.
//
// * The reflect package is only partially implemented.
//
// * The "testing" package is no longer supported because it
// depends on low-level details that change too often.
//
// * "sync/atomic" operations are not atomic due to the "boxed" value
// representation: it is not possible to read, modify and write an
// interface value atomically. As a consequence, Mutexes are currently
// broken.
//
// * recover is only partially implemented.  Also, the interpreter
// makes no attempt to distinguish target panics from interpreter
// crashes.
//
// * the sizes of the int, uint and uintptr types in the target
// program are assumed to be the same as those of the interpreter
// itself.
//
// * all values occupy space, even those of types defined by the spec
// to have zero size, e.g. struct{}.  This can cause asymptotic
// performance degradation.
//
// * os.Exit is implemented using panic, causing deferred functions to
// run.
package interp // import "golang.org/x/tools/go/ssa/interp"

import (
	"fmt"
	"go/token"
	"go/types"
	"log"
	"os"
	"reflect"
	"runtime"
	"slices"
	"strings"
	_ "unsafe"

	"golang.org/x/tools/go/ssa"
)

type continuation int

const (
	kNext continuation = iota
	kReturn
	kJump
)

// Mode is a bitmask of options affecting the interpreter.
type Mode uint

const (
	DisableRecover Mode = 1 << iota // Disable recover() in target programs; show interpreter crash instead.
	EnableTracing                   // Print a trace of all instructions as they are interpreted.
)

type methodSet map[string]*ssa.Function

// State shared between all interpreted goroutines.
type interpreter struct {
	osArgs             []value                // the value of os.Args
	prog               *ssa.Program           // the SSA program
	globals            map[*ssa.Global]*value // addresses of global variables (immutable)
	mode               Mode                   // interpreter options
	reflectPackage     *ssa.Package           // the fake reflect package
	errorMethods       methodSet              // the method set of reflect.error, which implements the error interface.
	rtypeMethods       methodSet              // the method set of rtype, which implements the reflect.Type interface.
	runtimeErrorString types.Type             // the runtime.errorString type
	sizes              types.Sizes            // the effective type-sizing function
	goroutines         int32                  // atomically updated
	es                 engineState
}

type deferred struct {
	fn    value
	args  []value
	instr *ssa.Defer
	tail  *deferred
}

type frame struct {
	i                *interpreter
	caller           *frame
	fn               *ssa.Function
	block, prevBlock *ssa.BasicBlock
	env              map[ssa.Value]value // dynamic values of SSA variables
	locals           []value
	defers           *deferred
	result           value
	panicking        bool
	panic            interface{}
	phitemps         []value // temporaries for parallel phi assignment
}

func (fr *frame) get(key ssa.Value) value {
	switch key := key.(type) {
	case nil:
		// Hack; simplifies handling of optional attributes
		// such as ssa.Slice.{Low,High}.
		return nil
	case *ssa.Function, *ssa.Builtin:
		return key
	case *ssa.Const:
		return constValue(key)
	case *ssa.Global:
		return fr.i.global(fr, key)
	}
	if r, ok := fr.env[key]; ok {
		return r
	}
	panic(fmt.Sprintf("get: no value for %T: %v", key, key.Name()))
}

// runDefer runs a deferred call d.
// It always returns normally, but may set or clear fr.panic.
func (fr *frame) runDefer(d *deferred) {
	if fr.i.mode&EnableTracing != 0 {
		fmt.Fprintf(os.Stderr, "%s: invoking deferred function call\n",
			fr.i.prog.Fset.Position(d.instr.Pos()))
	}
	var ok bool
	defer func() {
		if !ok {
			p := recover()
			if a, isAbort := p.(abort); isAbort {
				panic(a)
			}
			// Deferred call created a new state of panic.
			fr.panicking = true
			fr.panic = p
		}
	}()
	call(fr.i, fr, d.instr.Pos(), d.fn, d.args)
	ok = true
}

// runDefers executes fr's deferred function calls in LIFO order.
//
// On entry, fr.panicking indicates a state of panic; if
// true, fr.panic contains the panic value.
//
// On completion, if a deferred call started a panic, or if no
// deferred call recovered from a previous state of panic, then
// runDefers itself panics after the last deferred call has run.
//
// If there was no initial state of panic, or it was recovered from,
// runDefers returns normally.
func (fr *frame) runDefers() {
	for d := fr.defers; d != nil; d = d.tail {
		fr.runDefer(d)
	}
	fr.defers = nil
	if fr.panicking {
		panic(fr.panic) // new panic, or still panicking
	}
}

// lookupMethod returns the method set for type typ, which may be one
// of the interpreter's fake types.
func lookupMethod(i *interpreter, typ types.Type, meth *types.Func) *ssa.Function {
	switch typ {
	case rtypeType:
		return i.rtypeMethods[meth.Id()]
	case errorType:
		return i.errorMethods[meth.Id()]
	}
	return i.prog.LookupMethod(typ, meth.Pkg(), meth.Name())
}

// visitInstr interprets a single ssa.Instruction within the activation
// record frame.  It returns a continuation value indicating where to
// read the next instruction from.
func visitInstr(fr *frame, instr ssa.Instruction) continuation {
	switch instr := instr.(type) {
	case *ssa.DebugRef:
		// no-op

	case *ssa.UnOp:
		fr.env[instr] = unop(instr, fr.get(instr.X))

	case *ssa.BinOp:
		fr.env[instr] = binop(instr.Op, instr.X.Type(), fr.get(instr.X), fr.get(instr.Y))

	case *ssa.Call:
		fn, args := prepareCall(fr, &instr.Call)
		fr.env[instr] = call(fr.i, fr, instr.Pos(), fn, args)

	case *ssa.ChangeInterface:
		fr.env[instr] = fr.get(instr.X)

	case *ssa.ChangeType:
		fr.env[instr] = fr.get(instr.X) // (can't fail)

	case *ssa.Convert:
		fr.env[instr] = conv(instr.Type(), instr.X.Type(), fr.get(instr.X))

	case *ssa.SliceToArrayPointer:
		fr.env[instr] = sliceToArrayPointer(instr.Type(), instr.X.Type(), fr.get(instr.X))

	case *ssa.MakeInterface:
		fr.env[instr] = iface{t: instr.X.Type(), v: fr.get(instr.X)}

	case *ssa.Extract:
		fr.env[instr] = fr.get(instr.Tuple).(tuple)[instr.Index]

	case *ssa.Slice:
		fr.env[instr] = slice(fr.get(instr.X), fr.get(instr.Low), fr.get(instr.High), fr.get(instr.Max))

	case *ssa.Return:
		switch len(instr.Results) {
		case 0:
		case 1:
			fr.result = fr.get(instr.Results[0])
		default:
			var res []value
			for _, r := range instr.Results {
				res = append(res, fr.get(r))
			}
			fr.result = tuple(res)
		}
		fr.block = nil
		return kReturn

	case *ssa.RunDefers:
		fr.runDefers()

	case *ssa.Panic:
		panic(targetPanic{fr.get(instr.X)})

	case *ssa.Send:
		fr.get(instr.Chan).(chan value) <- fr.get(instr.X)

	case *ssa.Store:
		store(mustDeref(instr.Addr.Type()), fr.get(instr.Addr).(*value), fr.get(instr.Val))

	case *ssa.If:
		succ := 1
		switch c := fr.get(instr.Cond).(type) {
		case bool:
			if c {
				succ = 0
			}
		case *sym:
			if c.ps.Decide(c.t) {
				succ = 0
			}
		default:
			panic(fmt.Sprintf("If on %T", c))
		}
		fr.prevBlock, fr.block = fr.block, fr.block.Succs[succ]
		return kJump

	case *ssa.Jump:
		fr.prevBlock, fr.block = fr.block, fr.block.Succs[0]
		return kJump

	case *ssa.Defer:
		fn, args := prepareCall(fr, &instr.Call)
		defers := &fr.defers
		if into := fr.get(instr.DeferStack); into != nil {
			defers = into.(**deferred)
		}
		*defers = &deferred{
			fn:    fn,
			args:  args,
			instr: instr,
			tail:  *defers,
		}

	case *ssa.Go:
		// one schedule: the goroutine body runs inline to completion
		fn, args := prepareCall(fr, &instr.Call)
		fr.i.noteStub("go statement: body run inline (single schedule)")
		call(fr.i, fr, instr.Pos(), fn, args)

	case *ssa.MakeChan:
		fr.env[instr] = make(chan value, asInt64(fr.get(instr.Size)))

	case *ssa.Alloc:
		var addr *value
		if instr.Heap {
			// new
			addr = new(value)
			fr.env[instr] = addr
		} else {
			// local
			addr = fr.env[instr].(*value)
		}
		*addr = zero(mustDeref(instr.Type()))

	case *ssa.MakeSlice:
		slice := make([]value, concretizeSize(fr.get(instr.Cap)))
		tElt := instr.Type().Underlying().(*types.Slice).Elem()
		for i := range slice {
			slice[i] = zero(tElt)
		}
		fr.env[instr] = slice[:concretizeSize(fr.get(instr.Len))]

	case *ssa.MakeMap:
		var reserve int64
		if instr.Reserve != nil {
			reserve = asInt64(fr.get(instr.Reserve))
		}
		if !fitsInt(reserve, fr.i.sizes) {
			panic(fmt.Sprintf("ssa.MakeMap.Reserve value %d does not fit in int", reserve))
		}
		fr.env[instr] = makeMap(instr.Type().Underlying().(*types.Map).Key(), reserve)

	case *ssa.Range:
		fr.env[instr] = rangeIter(fr.get(instr.X), instr.X.Type())

	case *ssa.Next:
		fr.env[instr] = fr.get(instr.Iter).(iter).next()

	case *ssa.FieldAddr:
		fr.env[instr] = &(*fr.get(instr.X).(*value)).(structure)[instr.Field]

	case *ssa.Field:
		fr.env[instr] = fr.get(instr.X).(structure)[instr.Field]

	case *ssa.IndexAddr:
		x := fr.get(instr.X)
		idx := fr.get(instr.Index)
		switch x := x.(type) {
		case []value:
			fr.env[instr] = &x[checkIndex(idx, len(x))]
		case *value: // *array
			a := (*x).(array)
			fr.env[instr] = &a[checkIndex(idx, len(a))]
		default:
			panic(fmt.Sprintf("unexpected x type in IndexAddr: %T", x))
		}

	case *ssa.Index:
		x := fr.get(instr.X)
		idx := fr.get(instr.Index)

		switch x := x.(type) {
		case array:
			fr.env[instr] = x[checkIndex(idx, len(x))]
		case string:
			fr.env[instr] = x[checkIndex(idx, len(x))]
		case symStr:
			fr.env[instr] = x.b[checkIndex(idx, len(x.b))]
		default:
			panic(fmt.Sprintf("unexpected x type in Index: %T", x))
		}

	case *ssa.Lookup:
		fr.env[instr] = lookup(fr.i, instr, fr.get(instr.X), fr.get(instr.Index))

	case *ssa.MapUpdate:
		m := fr.get(instr.Map)
		key := fr.get(instr.Key)
		v := fr.get(instr.Value)
		if _, isB := m.(map[value]value); containsSym(key) || (isB && fr.i.es.symKeys) {
			key = symMapKey(fr.i, m, key, true)
		}
		switch m := m.(type) {
		case map[value]value:
			if m == nil {
				panic(runtimeErrorString("assignment to entry in nil map"))
			}
			m[key] = v
		case *hashmap:
			m.insert(key.(hashable), v)
		default:
			panic(fmt.Sprintf("illegal map type: %T", m))
		}

	case *ssa.TypeAssert:
		fr.env[instr] = typeAssert(fr.i, instr, fr.get(instr.X).(iface))

	case *ssa.MakeClosure:
		var bindings []value
		for _, binding := range instr.Bindings {
			bindings = append(bindings, fr.get(binding))
		}
		fr.env[instr] = &closure{instr.Fn.(*ssa.Function), bindings}

	case *ssa.Phi:
		log.Fatal("unreachable") // phis are processed at block entry

	case *ssa.Select:
		var cases []reflect.SelectCase
		if !instr.Blocking {
			cases = append(cases, reflect.SelectCase{
				Dir: reflect.SelectDefault,
			})
		}
		for _, state := range instr.States {
			var dir reflect.SelectDir
			if state.Dir == types.RecvOnly {
				dir = reflect.SelectRecv
			} else {
				dir = reflect.SelectSend
			}
			var send reflect.Value
			if state.Send != nil {
				send = reflect.ValueOf(fr.get(state.Send))
			}
			cases = append(cases, reflect.SelectCase{
				Dir:  dir,
				Chan: reflect.ValueOf(fr.get(state.Chan)),
				Send: send,
			})
		}
		chosen, recv, recvOk := reflect.Select(cases)
		if !instr.Blocking {
			chosen-- // default case should have index -1.
		}
		r := tuple{chosen, recvOk}
		for i, st := range instr.States {
			if st.Dir == types.RecvOnly {
				var v value
				if i == chosen && recvOk {
					// No need to copy since send makes an unaliased copy.
					v = recv.Interface().(value)
				} else {
					v = zero(st.Chan.Type().Underlying().(*types.Chan).Elem())
				}
				r = append(r, v)
			}
		}
		fr.env[instr] = r

	default:
		panic(fmt.Sprintf("unexpected instruction: %T", instr))
	}

	// if val, ok := instr.(ssa.Value); ok {
	// 	fmt.Println(toString(fr.env[val])) // debugging
	// }

	return kNext
}

// prepareCall determines the function value and argument values for a
// function call in a Call, Go or Defer instruction, performing
// interface method lookup if needed.
func prepareCall(fr *frame, call *ssa.CallCommon) (fn value, args []value) {
	v := fr.get(call.Value)
	if call.Method == nil {
		// Function call.
		fn = v
	} else {
		// Interface method invocation.
		recv := v.(iface)
		if recv.t == nil {
			panic("method invoked on nil interface")
		}
		if f := lookupMethod(fr.i, recv.t, call.Method); f == nil {
			// Unreachable in well-typed programs.
			panic(fmt.Sprintf("method set for dynamic type %v does not contain %s", recv.t, call.Method))
		} else {
			fn = f
		}
		args = append(args, recv.v)
	}
	for _, arg := range call.Args {
		args = append(args, fr.get(arg))
	}
	return
}

// call interprets a call to a function (function, builtin or closure)
// fn with arguments args, returning its result.
// callpos is the position of the callsite.
func call(i *interpreter, caller *frame, callpos token.Pos, fn value, args []value) value {
	switch fn := fn.(type) {
	case *ssa.Function:
		if fn == nil {
			panic("call of nil function") // nil of func type
		}
		return callSSA(i, caller, callpos, fn, args, nil)
	case *closure:
		return callSSA(i, caller, callpos, fn.Fn, args, fn.Env)
	case *ssa.Builtin:
		return callBuiltin(caller, callpos, fn, args)
	}
	panic(fmt.Sprintf("cannot call %T", fn))
}

func loc(fset *token.FileSet, pos token.Pos) string {
	if pos == token.NoPos {
		return ""
	}
	return " at " + fset.Position(pos).String()
}

// callSSA interprets a call to function fn with arguments args,
// and lexical environment env, returning its result.
// callpos is the position of the callsite.
func callSSA(i *interpreter, caller *frame, callpos token.Pos, fn *ssa.Function, args []value, env []value) value {
	if i.mode&EnableTracing != 0 {
		fset := fn.Prog.Fset
		// TODO(adonovan): fix: loc() lies for external functions.
		fmt.Fprintf(os.Stderr, "Entering %s%s.\n", fn, loc(fset, fn.Pos()))
		suffix := ""
		if caller != nil {
			suffix = ", resuming " + caller.fn.String() + loc(fset, callpos)
		}
		defer fmt.Fprintf(os.Stderr, "Leaving %s%s.\n", fn, suffix)
	}
	fr := &frame{
		i:      i,
		caller: caller, // for panic/recover
		fn:     fn,
	}
	i.es.depth++
	defer func() { i.es.depth-- }()
	if i.es.depth > i.es.cfg.DepthCap {
		panic(abort{AbortUnwound, fmt.Sprintf("call depth cap %d exceeded in %s", i.es.cfg.DepthCap, fn)})
	}
	if fn.Parent() == nil {
		if to := i.es.P.redirects[fn]; to != nil {
			fn = to
			fr.fn = to
		} else if o := fn.Origin(); o != nil {
			if to := i.es.P.redirects[o]; to != nil {
				fn = to
				fr.fn = to
			}
		}
		name := fn.String()
		if h := i.es.P.hooks[name]; h != nil {
			return h(fr, args)
		}
		if strings.Contains(name, "michaelquigley/pfxlog.") || strings.Contains(name, "sirupsen/logrus.") {
			// logging is not the subject: empty bodies, zero results
			i.noteStub("pfxlog / logrus: empty bodies")
			res := fn.Signature.Results()
			if res.Len() == 0 {
				return nil
			}
			if res.Len() == 1 {
				// builders are chained (Logger().WithError(..).Infof(..)): hand out
				// a dummy object rather than nil so that embedded-field selection works
				if pt, ok := res.At(0).Type().Underlying().(*types.Pointer); ok {
					if _, isStruct := pt.Elem().Underlying().(*types.Struct); isStruct {
						cell := zero(pt.Elem())
						return &cell
					}
				}
			}
			return zero(res)
		}
		if o := fn.Origin(); o != nil {
			if h := i.es.P.hooks[o.String()]; h != nil {
				return h(fr, args)
			}
		}
		if ext := externals[name]; ext != nil {
			if i.mode&EnableTracing != 0 {
				fmt.Fprintln(os.Stderr, "\t(external)")
			}
			return ext(fr, args)
		}
		if fn.Synthetic == "package initializer" {
			pkg := fn.Pkg.Pkg
			if !i.es.P.InitAllow(pkg.Path()) {
				return nil
			}
			i.es.inited[pkg] = true
		}
		if fn.Blocks == nil {
			panic(abort{AbortUnsupported, "no code for function: " + name})
		}
	}
	if i.es.Covered != nil {
		// instances of generic functions have no package of their own: they are
		// recorded under the generic function they come from
		cf := fn
		if cf.Pkg == nil && cf.Origin() != nil {
			cf = cf.Origin()
		}
		if cf.Pkg != nil && strings.HasPrefix(cf.Pkg.Pkg.Path(), i.es.P.RepoPrefix) {
			i.es.Covered[cf]++
		}
	}

	// generic function body?
	if fn.TypeParams().Len() > 0 && len(fn.TypeArgs()) == 0 {
		panic("interp requires ssa.BuilderMode to include InstantiateGenerics to execute generics")
	}

	fr.env = make(map[ssa.Value]value)
	fr.block = fn.Blocks[0]
	fr.locals = make([]value, len(fn.Locals))
	for i, l := range fn.Locals {
		fr.locals[i] = zero(mustDeref(l.Type()))
		fr.env[l] = &fr.locals[i]
	}
	for i, p := range fn.Params {
		fr.env[p] = args[i]
	}
	for i, fv := range fn.FreeVars {
		fr.env[fv] = env[i]
	}
	for fr.block != nil {
		runFrame(fr)
	}
	// Destroy the locals to avoid accidental use after return.
	for i := range fn.Locals {
		fr.locals[i] = bad{}
	}
	return fr.result
}

// runFrame executes SSA instructions starting at fr.block and
// continuing until a return, a panic, or a recovered panic.
//
// After a panic, runFrame panics.
//
// After a normal return, fr.result contains the result of the call
// and fr.block is nil.
//
// A recovered panic in a function without named return parameters
// (NRPs) becomes a normal return of the zero value of the function's
// result type.
//
// After a recovered panic in a function with NRPs, fr.result is
// undefined and fr.block contains the block at which to resume
// control.
func runFrame(fr *frame) {
	defer func() {
		if fr.block == nil {
			return // normal return
		}
		if fr.i.mode&DisableRecover != 0 {
			return // let interpreter crash
		}
		p := recover()
		if a, ok := p.(abort); ok {
			// executor abort: never visible to the target program
			fr.block = nil
			panic(a)
		}
		if fr.i.es.panicStack == "" {
			fr.i.es.panicStack = targetStack(fr)
			if _, isRt := p.(runtime.Error); isRt && os.Getenv("VERIF_DEBUG_PANIC") != "" {
				buf := make([]byte, 1<<14)
				n := runtime.Stack(buf, false)
				fr.i.es.panicStack += "\nGO STACK AT ORIGIN:\n" + string(buf[:n])
			}
		}
		fr.panicking = true
		fr.panic = p
		if fr.i.mode&EnableTracing != 0 {
			fmt.Fprintf(os.Stderr, "Panicking: %T %v.\n", fr.panic, fr.panic)
		}
		fr.runDefers()
		fr.block = fr.fn.Recover
	}()

	for {
		if fr.i.mode&EnableTracing != 0 {
			fmt.Fprintf(os.Stderr, ".%s:\n", fr.block)
		}

		nonPhis := executePhis(fr)
		for _, instr := range nonPhis {
			if fr.i.mode&EnableTracing != 0 {
				if v, ok := instr.(ssa.Value); ok {
					fmt.Fprintln(os.Stderr, "\t", v.Name(), "=", instr)
				} else {
					fmt.Fprintln(os.Stderr, "\t", instr)
				}
			}
			fr.i.step(fr, instr)
			if visitInstr(fr, instr) == kReturn {
				return
			}
			// Inv: kNext (continue) or kJump (last instr)
		}
	}
}

// executePhis executes the phi-nodes at the start of the current
// block and returns the non-phi instructions.
func executePhis(fr *frame) []ssa.Instruction {
	firstNonPhi := -1
	for i, instr := range fr.block.Instrs {
		if _, ok := instr.(*ssa.Phi); !ok {
			firstNonPhi = i
			break
		}
	}
	// Inv: 0 <= firstNonPhi; every block contains a non-phi.

	nonPhis := fr.block.Instrs[firstNonPhi:]
	if firstNonPhi > 0 {
		phis := fr.block.Instrs[:firstNonPhi]
		// Execute parallel assignment of phis.
		//
		// See "the swap problem" in Briggs et al's "Practical Improvements
		// to the Construction and Destruction of SSA Form" for discussion.
		predIndex := slices.Index(fr.block.Preds, fr.prevBlock)
		fr.phitemps = fr.phitemps[:0]
		for _, phi := range phis {
			phi := phi.(*ssa.Phi)
			if fr.i.mode&EnableTracing != 0 {
				fmt.Fprintln(os.Stderr, "\t", phi.Name(), "=", phi)
			}
			fr.phitemps = append(fr.phitemps, fr.get(phi.Edges[predIndex]))
		}
		for i, phi := range phis {
			fr.env[phi.(*ssa.Phi)] = fr.phitemps[i]
		}
	}
	return nonPhis
}

// doRecover implements the recover() built-in.
func doRecover(caller *frame) value {
	// recover() must be exactly one level beneath the deferred
	// function (two levels beneath the panicking function) to
	// have any effect.  Thus we ignore both "defer recover()" and
	// "defer f() -> g() -> recover()".
	if caller.i.mode&DisableRecover == 0 &&
		caller != nil && !caller.panicking &&
		caller.caller != nil && caller.caller.panicking {
		caller.caller.panicking = false
		p := caller.caller.panic
		caller.caller.panic = nil

		// TODO(adonovan): support runtime.Goexit.
		switch p := p.(type) {
		case targetPanic:
			// The target program explicitly called panic().
			return p.v
		case runtime.Error:
			// The interpreter encountered a runtime error.
			return iface{caller.i.runtimeErrorString, p.Error()}
		case string:
			// The interpreter explicitly called panic().
			return iface{caller.i.runtimeErrorString, p}
		default:
			panic(fmt.Sprintf("unexpected panic type %T in target call to recover()", p))
		}
	}
	return iface{}
}

// global returns the address of a package-level variable, allocating its zero
// value on first use. Reading a global of a package whose init was skipped
// (not allow-listed) would silently see a zero value: that aborts the path.
func (i *interpreter) global(fr *frame, g *ssa.Global) *value {
	if r, ok := i.globals[g]; ok {
		return r
	}
	if g.Pkg != nil {
		path := g.Pkg.Pkg.Path()
		if !i.es.P.InitAllow(path) && !i.es.P.ZeroOK(path) {
			panic(abort{AbortUnsupported, fmt.Sprintf("global %s of package %s whose init is not run; at %s", g.Name(), path, targetStack(fr))})
		}
	}
	cell := zero(mustDeref(g.Type()))
	if g.Pkg != nil && g.Pkg.Pkg.Path() == "go.etcd.io/bbolt" && g.Name() == "DefaultOptions" {
		// bbolt's init is not run; its DefaultOptions is only ever copied and
		// passed to Open (which the model ignores): a zero Options value
		opts := zero(mustDeref(mustDeref(g.Type())))
		cell = &opts
	}
	i.globals[g] = &cell
	return &cell
}

func targetStack(fr *frame) string {
	var parts []string
	for f := fr; f != nil && len(parts) < 4; f = f.caller {
		parts = append(parts, f.fn.String())
	}
	return strings.Join(parts, " <- ")
}
