package interp

import (
	"go/token"
	"go/types"
	"reflect"
	"sync"
	"time"
)

// zitiql.ParseZqlDatetime uses a package-level regexp and time.Parse, neither
// of which is interpreted. It is redirected (cmd/gosym/load.go) to
// ast.VerifParseZqlDatetime, which looks the literal text up in the table that
// /verif/gen/astgen produced by running the REAL function natively.

func init() {
	extraHooks = append(extraHooks, func(p *Program) {
		p.hooks["time.Date"] = func(fr *frame, args []value) value {
			// only UTC locations exist in the executor (time's init is not run)
			fr.i.noteStub("time.Date: evaluated natively, location taken as UTC")
			n := func(k int) int { return int(asInt64(args[k])) }
			return timeValue(time.Date(n(0), time.Month(n(1)), n(2), n(3), n(4), n(5), n(6), time.UTC))
		}
		p.hooks[rtPkg+".ZonedTime"] = func(fr *frame, args []value) value {
			t := time.Unix(asInt64(args[0]), asInt64(args[1]))
			if args[3].(bool) {
				return timeValue(t)
			}
			return timeValueZone(t.In(time.FixedZone("", int(asInt64(args[2])))))
		}
		p.hooks["time.Unix"] = func(fr *frame, args []value) value {
			_, s0 := args[0].(*sym)
			_, s1 := args[1].(*sym)
			if s0 || s1 {
				// symbolic instant: the representation without a monotonic reading is
				// wall = nsec, ext = seconds since year 1; nsec must already be
				// normalised (0 <= nsec < 1e9), which is asserted as a path assumption
				ps := fr.i.es.ps
				inRange := andVal(binop(token.GEQ, nil, args[1], int64(0)), binop(token.LSS, nil, args[1], int64(1000000000)))
				ps.Assume(inRange)
				const unixToInternal = int64((1969*365 + 1969/4 - 1969/100 + 1969/400) * 86400)
				ext := binop(token.ADD, nil, args[0], unixToInternal)
				wall := conv(types.Typ[types.Uint64], types.Typ[types.Int64], args[1])
				return structure{wall, ext, (*value)(nil)}
			}
			return timeValue(time.Unix(asInt64(args[0]), asInt64(args[1])))
		}
		p.hooks["(time.Time).UTC"] = func(fr *frame, args []value) value {
			st := args[0].(structure)
			return structure{st[0], st[1], (*value)(nil)}
		}
		p.hooks["(time.Time).Format"] = func(fr *frame, args []value) value {
			fr.i.noteStub("time.Time.Format: fixed text (only used in file names and log text)")
			return "20200102"
		}
		p.hooks["(time.Time).Location"] = func(fr *frame, args []value) value { return (*value)(nil) }
	})
}

// zoneCells: one stand-in *time.Location per non-UTC offset. The executor never
// looks inside a Location (every method that would is hooked); what matters is
// that a time carrying a zone is a different struct value from the same
// instant in UTC, exactly as in the real representation (loc == nil for UTC).
var zoneCells = map[int]*value{}

// timeValueZone keeps the zone of a parsed literal: same instant, non-nil loc
// unless the literal is in UTC.
func timeValueZone(t time.Time) value {
	st := timeValue(t).(structure)
	_, off := t.Zone()
	if t.Location() == time.UTC {
		return st
	}
	zoneMu.Lock()
	defer zoneMu.Unlock()
	c, ok := zoneCells[off]
	if !ok {
		var v value = structure{}
		c = &v
		zoneCells[off] = c
	}
	return structure{st[0], st[1], c}
}

var zoneMu sync.Mutex

// timeValue converts a native time.Time (as UTC) into the interpreter's
// structure for time.Time{wall uint64, ext int64, loc *Location}.
func timeValue(t time.Time) value {
	u := t.UTC()
	rv := reflect.ValueOf(u)
	wall := rv.FieldByName("wall").Uint()
	ext := rv.FieldByName("ext").Int()
	return structure{wall, ext, (*value)(nil)}
}

var _ = types.Typ
