package interp

import (
	"go/types"
	"reflect"
	"regexp"
	"strings"
	"time"
)

// zitiql.ParseZqlDatetime uses a package-level regexp and time.Parse, neither
// of which is interpreted. For the concrete literal texts of the harness
// families it is evaluated natively here (same steps as the source: strip
// datetime( ), z->Z, t->T, RFC3339) and the result is brought into the
// interpreter's representation of time.Time as a UTC instant.
var dateTimeStripper = regexp.MustCompile(`^\s*datetime\(\s*(.*?)\s*\)\s*$`)

func init() {
	extraHooks = append(extraHooks, func(p *Program) {
		p.hooks["github.com/openziti/storage/zitiql.ParseZqlDatetime"] = func(fr *frame, args []value) value {
			text, ok := args[0].(string)
			if !ok {
				panic(abort{AbortUnsupported, "ParseZqlDatetime of a symbolic string"})
			}
			fr.i.noteStub("zitiql.ParseZqlDatetime: evaluated natively on the concrete literal (regexp + time.Parse), result kept as a UTC instant")
			m := dateTimeStripper.FindAllStringSubmatch(text, -1)
			if m == nil || len(m) != 1 || len(m[0]) != 2 {
				return tuple{timeValue(time.Time{}), makeFmtError(fr.i, "could not parse datetime ("+text+")", nil)}
			}
			s := strings.Replace(m[0][1], "z", "Z", 1)
			s = strings.Replace(s, "t", "T", 1)
			t, err := time.Parse(time.RFC3339, s)
			if err != nil {
				return tuple{timeValue(time.Time{}), makeFmtError(fr.i, err.Error(), nil)}
			}
			return tuple{timeValue(t), iface{}}
		}
	})
}

func init() {
	extraHooks = append(extraHooks, func(p *Program) {
		p.hooks["time.Date"] = func(fr *frame, args []value) value {
			// only UTC locations exist in the executor (time's init is not run)
			fr.i.noteStub("time.Date: evaluated natively, location taken as UTC")
			n := func(k int) int { return int(asInt64(args[k])) }
			return timeValue(time.Date(n(0), time.Month(n(1)), n(2), n(3), n(4), n(5), n(6), time.UTC))
		}
		p.hooks["time.Unix"] = func(fr *frame, args []value) value {
			return timeValue(time.Unix(asInt64(args[0]), asInt64(args[1])))
		}
		p.hooks["(time.Time).UTC"] = func(fr *frame, args []value) value {
			st := args[0].(structure)
			return structure{st[0], st[1], (*value)(nil)}
		}
		p.hooks["(time.Time).Format"] = func(fr *frame, args []value) value {
			fr.i.noteStub("time.Time.Format: fixed text (only used in file names and log text)")
			return "20200102"
		}
		p.hooks["(time.Time).Location"] = func(fr *frame, args []value) value { return (*value)(nil) }
	})
}

// timeValue converts a native time.Time (as UTC) into the interpreter's
// structure for time.Time{wall uint64, ext int64, loc *Location}.
func timeValue(t time.Time) value {
	u := t.UTC()
	rv := reflect.ValueOf(u)
	wall := rv.FieldByName("wall").Uint()
	ext := rv.FieldByName("ext").Int()
	return structure{wall, ext, (*value)(nil)}
}

var _ = types.Typ
