package interp

import (
	"fmt"

	"go/types"
	"sort"
	"verif/engine/internal/smt"
)

func mustDeref(t types.Type) types.Type {
	if p, ok := t.Underlying().(*types.Pointer); ok {
		return p.Elem()
	}
	panic(fmt.Sprintf("mustDeref: %s is not a pointer", t))
}

func canonKind(k types.BasicKind) types.BasicKind {
	switch k {
	case types.UntypedBool:
		return types.Bool
	case types.UntypedInt:
		return types.Int
	case types.UntypedRune:
		return types.Int32
	case types.UntypedFloat:
		return types.Float64
	case types.UntypedString:
		return types.String
	}
	return k
}

// sliceIter iterates a pre-computed list of (key, value) pairs.
type pairIter struct {
	keys, vals []value
	i          int
}

func (it *pairIter) next() tuple {
	if it.i >= len(it.keys) {
		return []value{false, nil, nil}
	}
	k, v := it.keys[it.i], it.vals[it.i]
	it.i++
	return []value{true, k, v}
}

func keyLess(a, b value) bool {
	switch a := a.(type) {
	case string:
		return a < b.(string)
	case bool:
		return !a && b.(bool)
	case float64:
		return a < b.(float64)
	case float32:
		return a < b.(float32)
	case uint64:
		return a < b.(uint64)
	case uint:
		return a < b.(uint)
	case uintptr:
		return a < b.(uintptr)
	}
	return asInt64(a) < asInt64(b)
}

// newSortedMapIter iterates a builtin-keyed map in sorted key order (a fixed,
// legal iteration order; Go leaves the order unspecified).
func newSortedMapIter(m map[value]value) iter {
	keys := make([]value, 0, len(m))
	var boxes []*symKeyBox
	for k := range m {
		if b, ok := k.(*symKeyBox); ok {
			boxes = append(boxes, b)
			continue
		}
		keys = append(keys, k)
	}
	if len(boxes) > 0 {
		sort.Slice(keys, func(i, j int) bool { return keyLess(keys[i], keys[j]) })
		sort.Slice(boxes, func(i, j int) bool { return boxes[i].seq < boxes[j].seq })
		it := &pairIter{}
		for _, k := range keys {
			it.keys = append(it.keys, k)
			it.vals = append(it.vals, m[k])
		}
		for _, b := range boxes {
			it.keys = append(it.keys, b.v)
			it.vals = append(it.vals, m[b])
		}
		return it
	}
	if len(keys) > 1 {
		switch keys[0].(type) {
		case *value, chan value:
			panic(abort{AbortUnsupported, "iteration over a pointer-keyed map with more than one entry (order not reproducible)"})
		}
		sort.Slice(keys, func(i, j int) bool { return keyLess(keys[i], keys[j]) })
	}
	vals := make([]value, len(keys))
	for i, k := range keys {
		vals[i] = m[k]
	}
	return &pairIter{keys: keys, vals: vals}
}

func newSortedHashmapIter(m *hashmap) iter {
	if m == nil {
		return &pairIter{}
	}
	var es []*entry
	for _, e := range m.table {
		for ; e != nil; e = e.next {
			es = append(es, e)
		}
	}
	sort.Slice(es, func(i, j int) bool { return es[i].seq < es[j].seq })
	it := &pairIter{}
	for _, e := range es {
		it.keys = append(it.keys, e.key)
		it.vals = append(it.vals, e.value)
	}
	return it
}

// symStrIter ranges over a string with symbolic bytes. Bytes >= 0x80 would
// need UTF-8 decoding of symbolic data: that side is cut as outside the claim.
type symStrIter struct {
	s symStr
	i int
}

func (it *symStrIter) next() tuple {
	if it.i >= len(it.s.b) {
		return []value{false, nil, nil}
	}
	b := it.s.b[it.i]
	idx := it.i
	it.i++
	switch b := b.(type) {
	case uint8:
		if b >= 0x80 {
			panic(abort{AbortUnsupported, "range over string with concrete non-ASCII byte next to symbolic bytes"})
		}
		return []value{true, idx, int32(b)}
	case *sym:
		ps := b.ps
		ascii := ps.ctx.Cmp(smt.OpULt, b.t, ps.ctx.Const(b.t.Sort, 0x80))
		if !ps.Decide(ascii) {
			ps.outside("non-ASCII byte under rune iteration")
		}
		return []value{true, idx, symConv(types.Int32, b)}
	}
	panic("symStrIter")
}
