package interp

// fmt.Sprintf / Errorf / Sprint family: a small formatter that understands the
// verbs the repository uses on strings, integers, bools, errors and Stringers.
// Anything else is rendered as an opaque placeholder (only ever used in error
// and log text). Strings may carry symbolic bytes.

import (
	"fmt"
	"go/token"
	"go/types"
	"strconv"

	"golang.org/x/tools/go/ssa"
)

func init() {
	extraHooks = append(extraHooks, func(p *Program) {
		h := p.hooks
		h["fmt.Sprintf"] = func(fr *frame, args []value) value {
			return mkStr(formatf(fr, args[0], args[1].([]value)))
		}
		h["fmt.Sprint"] = func(fr *frame, args []value) value {
			return mkStr(sprint(fr, args[0].([]value), false))
		}
		h["fmt.Sprintln"] = func(fr *frame, args []value) value {
			return mkStr(append(sprint(fr, args[0].([]value), true), uint8('\n')))
		}
		h["fmt.Errorf"] = func(fr *frame, args []value) value {
			msg := mkStr(formatf(fr, args[0], args[1].([]value)))
			// wrap the first error argument if %w is present (format is concrete)
			var wrapped value
			if f, ok := args[0].(string); ok && containsW(f) {
				for _, a := range args[1].([]value) {
					if it, ok := a.(iface); ok && it.t != nil && lookupMethodByName(fr.i, it.t, "Error") != nil {
						wrapped = it
						break
					}
				}
			}
			return makeFmtError(fr.i, msg, wrapped)
		}
		for _, n := range []string{"fmt.Println", "fmt.Printf", "fmt.Print", "fmt.Fprintf", "fmt.Fprintln", "fmt.Fprint"} {
			h[n] = func(fr *frame, args []value) value { return tuple{0, iface{}} }
		}
	})
}

var extraHooks []func(p *Program)

func containsW(f string) bool {
	for i := 0; i+1 < len(f); i++ {
		if f[i] == '%' && f[i+1] == 'w' {
			return true
		}
	}
	return false
}

func makeFmtError(i *interpreter, msg value, wrapped value) value {
	fmtPkg := i.prog.ImportedPackage("fmt")
	if wrapped != nil {
		t := fmtPkg.Type("wrapError").Object().Type()
		var cell value = structure{msg, wrapped}
		return iface{t: types.NewPointer(t), v: &cell}
	}
	errs := i.prog.ImportedPackage("errors")
	et := errs.Type("errorString").Object().Type()
	var cell value = structure{msg}
	return iface{t: types.NewPointer(et), v: &cell}
}

func bytesOfString(s string) []value {
	r := make([]value, len(s))
	for i := 0; i < len(s); i++ {
		r[i] = s[i]
	}
	return r
}

// renderArg renders one operand for %v / %s / %d.
func renderArg(fr *frame, a value, verb byte) []value {
	switch x := a.(type) {
	case iface:
		if x.t == nil {
			return bytesOfString("<nil>")
		}
		// error / Stringer
		if verb != 'd' {
			for _, mname := range []string{"Error", "String"} {
				if m := lookupMethodByName(fr.i, x.t, mname); m != nil && isStringMethod(m) {
					if p, ok := x.v.(*value); ok && p == nil {
						return bytesOfString("<nil>")
					}
					r := call(fr.i, fr, token.NoPos, m, []value{x.v})
					if isStr(r) {
						return strBytes(r)
					}
				}
			}
		}
		return renderArg(fr, x.v, verb)
	case string:
		if verb == 'q' {
			return bytesOfString(strconv.Quote(x))
		}
		return bytesOfString(x)
	case symStr:
		if verb == 'q' {
			r := []value{uint8('"')}
			r = append(r, x.b...)
			return append(r, uint8('"'))
		}
		return x.b
	case bool:
		return bytesOfString(strconv.FormatBool(x))
	case *sym:
		fr.i.noteStub("fmt: symbolic scalar rendered as <sym> (error/log text only)")
		return bytesOfString("<sym>")
	case int, int8, int16, int32, int64:
		return bytesOfString(strconv.FormatInt(asInt64(x), 10))
	case uint, uint8, uint16, uint32, uint64, uintptr:
		return bytesOfString(strconv.FormatUint(uint64(asInt64(x)), 10))
	case float64:
		return bytesOfString(strconv.FormatFloat(x, 'g', -1, 64))
	case []value:
		// []byte / []string etc.
		r := []value{uint8('[')}
		for i, e := range x {
			if i > 0 {
				r = append(r, uint8(' '))
			}
			r = append(r, renderArg(fr, e, verb)...)
		}
		return append(r, uint8(']'))
	case *value:
		if x == nil {
			return bytesOfString("<nil>")
		}
		return bytesOfString("<ptr>")
	}
	return bytesOfString(fmt.Sprintf("<%T>", a))
}

func isStringMethod(m *ssa.Function) bool {
	sig := m.Signature
	return sig.Params().Len() == 0 && sig.Results().Len() == 1 && types.Identical(sig.Results().At(0).Type(), types.Typ[types.String])
}

func formatf(fr *frame, format value, args []value) []value {
	f, ok := format.(string)
	if !ok {
		panic(abort{AbortUnsupported, "fmt with symbolic format string"})
	}
	var out []value
	ai := 0
	for i := 0; i < len(f); i++ {
		c := f[i]
		if c != '%' {
			out = append(out, c)
			continue
		}
		i++
		// flags / width / precision
		for i < len(f) && (f[i] == '+' || f[i] == '-' || f[i] == '#' || f[i] == ' ' || f[i] == '0' || (f[i] >= '1' && f[i] <= '9') || f[i] == '.') {
			i++
		}
		if i >= len(f) {
			break
		}
		verb := f[i]
		if verb == '%' {
			out = append(out, uint8('%'))
			continue
		}
		if ai >= len(args) {
			out = append(out, bytesOfString("%!"+string(verb)+"(MISSING)")...)
			continue
		}
		a := args[ai]
		ai++
		switch verb {
		case 'T':
			if it, ok := a.(iface); ok && it.t != nil {
				out = append(out, bytesOfString(it.t.String())...)
			} else {
				out = append(out, bytesOfString("<nil>")...)
			}
		default:
			out = append(out, renderArg(fr, a, verb)...)
		}
	}
	return out
}

func sprint(fr *frame, args []value, spaces bool) []value {
	var out []value
	for i, a := range args {
		if i > 0 && spaces {
			out = append(out, uint8(' '))
		}
		out = append(out, renderArg(fr, a, 'v')...)
	}
	return out
}
