package interp

import (
	"fmt"
	"go/types"
	"sync"

	"verif/engine/internal/smt"
)

// Input is one symbolic input created by a verifrt call on the current path.
type Input struct {
	Tag   string      `json:"tag"`
	Kind  string      `json:"kind"` // bool,int64,int32,int,uint8,float64bits,string,bytes,choose
	Terms []*smt.Term `json:"-"`    // 1 term for scalars, len terms for string/bytes
	Len   int         `json:"-"`
}

// ReplayValue is the concretised form of an Input.
type ReplayValue struct {
	Tag   string `json:"tag"`
	Kind  string `json:"kind"`
	U     uint64 `json:"u,omitempty"`     // scalar value (two's complement / float bits / bool)
	Bytes []int  `json:"bytes,omitempty"` // string / bytes
	IsStr bool   `json:"is_str,omitempty"`
}

type Violation struct {
	Label  string
	Kind   string // "assert" | "panic"
	Msg    string
	Values []ReplayValue
	Prefix []int
	Known  string // known-finding id when this is a known hit
}

// PathState is the state of one symbolic path.
type PathState struct {
	ctx    *smt.Ctx
	solver *smt.Solver

	prefix []int
	pos    int
	taken  []int
	// Pending alternatives discovered on this path (full decision prefixes).
	Pending [][]int

	pc         []*smt.Term
	model      map[string]uint64
	modelValid bool

	Inputs   []Input
	tagCount map[string]int
	Concrete []ReplayValue // non-nil: concrete mode (inputs come from here)
	concPos  int
	Verbose  bool

	Steps     int
	StepCap   int
	Decisions int
	Forced    int

	Violations       []Violation
	Reached          map[string]int // assertion / reach labels hit on this path
	Discharged       int            // assertions that held on the path (concretely true, or negation unsat)
	SolverDischarged int            // ... of which decided by an unsat answer of the solver
	Unknowns         int
	Assumes          []string
	Outside          []string

	ActiveKnown           map[string]bool
	Cross                 *CrossCheck
	MaxViolationsPerLabel int
	labelViolations       map[string]int // shared across paths by the explorer
}

func (ps *PathState) Ctx() *smt.Ctx { return ps.ctx }

func (ps *PathState) eval(t *smt.Term) uint64 {
	return smt.Eval(t, ps.model, map[int]uint64{})
}

func (ps *PathState) addPC(t *smt.Term) {
	if b, ok := t.ConstBool(); ok && b {
		return
	}
	ps.pc = append(ps.pc, t)
	ps.solver.Assert(t)
	if ps.modelValid && ps.eval(t) != 1 {
		ps.modelValid = false
	}
}

// checkWith asks whether pc ∧ extra is satisfiable; fetches the model when
// wantModel and sat.
func (ps *PathState) checkWith(extra *smt.Term, wantModel bool) (smt.Result, map[string]uint64) {
	ps.solver.Push()
	defer ps.solver.Pop()
	if extra != nil {
		ps.solver.Assert(extra)
	}
	r, err := ps.solver.Check()
	if err != nil {
		panic(abort{AbortSolver, err.Error()})
	}
	if r == smt.Sat && wantModel {
		m, err := ps.solver.Values(ps.ctx.Vars)
		if err != nil {
			panic(abort{AbortSolver, err.Error()})
		}
		return r, m
	}
	return r, nil
}

func (ps *PathState) ensureModel() bool {
	if ps.modelValid {
		return true
	}
	r, m := ps.checkWith(nil, true)
	if r == smt.Sat {
		ps.model, ps.modelValid = m, true
		return true
	}
	if r == smt.Unknown {
		ps.Unknowns++
	}
	return false
}

// Decide forks on a boolean condition.
func (ps *PathState) Decide(cond *smt.Term) bool {
	if b, ok := cond.ConstBool(); ok {
		return b
	}
	return ps.decideAlts([]*smt.Term{ps.ctx.Not(cond), cond}) == 1
}

func (ps *PathState) decideAlts(alts []*smt.Term) int {
	ps.Decisions++
	if ps.pos < len(ps.prefix) {
		a := ps.prefix[ps.pos]
		ps.pos++
		if a < 0 || a >= len(alts) {
			panic(abort{AbortUnsupported, "replay divergence: decision arity changed"})
		}
		ps.Forced++
		ps.taken = append(ps.taken, a)
		ps.addPC(alts[a])
		return a
	}
	feas := make([]bool, len(alts))
	chosen := -1
	if ps.modelValid {
		for i, a := range alts {
			if ps.eval(a) == 1 {
				feas[i] = true
				chosen = i
				break
			}
		}
	}
	var newModel map[string]uint64
	for i, a := range alts {
		if feas[i] {
			continue
		}
		want := chosen < 0
		r, m := ps.checkWith(a, want)
		switch r {
		case smt.Sat:
			feas[i] = true
			if chosen < 0 {
				chosen = i
				newModel = m
			}
		case smt.Unknown:
			ps.Unknowns++
		}
	}
	if chosen < 0 {
		panic(abort{AbortInfeasible, "no feasible alternative"})
	}
	for j := range alts {
		if j != chosen && feas[j] {
			p := make([]int, len(ps.taken)+1)
			copy(p, ps.taken)
			p[len(ps.taken)] = j
			ps.Pending = append(ps.Pending, p)
		}
	}
	ps.taken = append(ps.taken, chosen)
	ps.pos++
	if newModel != nil {
		ps.model, ps.modelValid = newModel, true
	}
	ps.addPC(alts[chosen])
	return chosen
}

// Concretize forks over the feasible values of s within lo..hi (inclusive);
// the remaining alternative (outside the range) returns ok=false. The feasible
// values are enumerated by the solver (model, block, repeat), so the cost is
// proportional to the number of feasible values, not to the width of the range.
// Decision entries: value-lo for an in-range value, -1 for out of range.
func (ps *PathState) Concretize(s *sym, lo, hi int64) (int64, bool) {
	c := ps.ctx
	_, signed := kindBits(s.k)
	loT, hiT := c.Const(s.t.Sort, uint64(lo)), c.Const(s.t.Sort, uint64(hi))
	var inRange *smt.Term
	if hi < lo {
		inRange = c.False()
	} else if signed {
		inRange = c.And(c.Cmp(smt.OpSLe, loT, s.t), c.Cmp(smt.OpSLe, s.t, hiT))
	} else {
		inRange = c.And(c.Cmp(smt.OpULe, loT, s.t), c.Cmp(smt.OpULe, s.t, hiT))
	}
	eqv := func(v int64) *smt.Term { return c.Eq(s.t, c.Const(s.t.Sort, uint64(v))) }
	ps.Decisions++
	if ps.pos < len(ps.prefix) {
		a := ps.prefix[ps.pos]
		ps.pos++
		ps.Forced++
		ps.taken = append(ps.taken, a)
		if a < 0 {
			ps.addPC(c.Not(inRange))
			return 0, false
		}
		ps.addPC(eqv(lo + int64(a)))
		return lo + int64(a), true
	}
	const maxVals = 300
	var vals []int64
	chosen := int64(-2) // -2 none, -1 out of range, >=0 value-lo
	if ps.modelValid {
		if ps.eval(inRange) == 1 {
			v := int64(ps.eval(s.t))
			if signed {
				bits, _ := kindBits(s.k)
				v = sextInt(uint64(v), bits)
			}
			vals = append(vals, v)
			chosen = v - lo
		} else {
			chosen = -1
		}
	}
	var newModel map[string]uint64
	// enumerate (remaining) in-range values
	if hi >= lo {
		ps.solver.Push()
		ps.solver.Assert(inRange)
		for _, v := range vals {
			ps.solver.Assert(c.Not(eqv(v)))
		}
		for {
			r, err := ps.solver.Check()
			if err != nil {
				ps.solver.Pop()
				panic(abort{AbortSolver, err.Error()})
			}
			if r == smt.Unknown {
				ps.Unknowns++
				break
			}
			if r == smt.Unsat {
				break
			}
			m, err := ps.solver.Values(ps.ctx.Vars)
			if err != nil {
				ps.solver.Pop()
				panic(abort{AbortSolver, err.Error()})
			}
			uv := smt.Eval(s.t, m, map[int]uint64{})
			v := int64(uv)
			if signed {
				bits, _ := kindBits(s.k)
				v = sextInt(uv, bits)
			}
			vals = append(vals, v)
			if chosen == -2 {
				chosen = v - lo
				newModel = m
			}
			if len(vals) > maxVals {
				ps.solver.Pop()
				panic(abort{AbortUnwound, fmt.Sprintf("symbolic index/size with more than %d feasible values", maxVals)})
			}
			ps.solver.Assert(c.Not(eqv(v)))
		}
		ps.solver.Pop()
	}
	outFeasible := chosen == -1
	if !outFeasible {
		want := chosen == -2
		r, m := ps.checkWith(c.Not(inRange), want)
		if r == smt.Sat {
			outFeasible = true
			if chosen == -2 {
				chosen = -1
				newModel = m
			}
		} else if r == smt.Unknown {
			ps.Unknowns++
		}
	}
	if chosen == -2 {
		panic(abort{AbortInfeasible, "no feasible value"})
	}
	push := func(a int) {
		p := make([]int, len(ps.taken)+1)
		copy(p, ps.taken)
		p[len(ps.taken)] = a
		ps.Pending = append(ps.Pending, p)
	}
	for _, v := range vals {
		if v-lo != chosen {
			push(int(v - lo))
		}
	}
	if outFeasible && chosen != -1 {
		push(-1)
	}
	ps.taken = append(ps.taken, int(chosen))
	ps.pos++
	if newModel != nil {
		ps.model, ps.modelValid = newModel, true
	}
	if chosen == -1 {
		ps.addPC(c.Not(inRange))
		return 0, false
	}
	ps.addPC(eqv(lo + chosen))
	return lo + chosen, true
}

// ChooseFresh forks a freshly created, otherwise unconstrained variable over
// 0..n-1: every value is feasible by construction, so no query is needed.
func (ps *PathState) ChooseFresh(s *sym, n int64) int64 {
	c := ps.ctx
	eqv := func(v int64) *smt.Term { return c.Eq(s.t, c.Const(s.t.Sort, uint64(v))) }
	ps.Decisions++
	if ps.pos < len(ps.prefix) {
		a := ps.prefix[ps.pos]
		ps.pos++
		ps.Forced++
		ps.taken = append(ps.taken, a)
		ps.addPC(eqv(int64(a)))
		return int64(a)
	}
	if n <= 0 {
		panic(abort{AbortInfeasible, "choose from an empty range"})
	}
	for v := n - 1; v >= 1; v-- {
		p := make([]int, len(ps.taken)+1)
		copy(p, ps.taken)
		p[len(ps.taken)] = int(v)
		ps.Pending = append(ps.Pending, p)
	}
	ps.taken = append(ps.taken, 0)
	ps.pos++
	ps.addPC(eqv(0))
	return 0
}

func sextInt(v uint64, bits int) int64 {
	if bits >= 64 {
		return int64(v)
	}
	sh := uint(64 - bits)
	return int64(v<<sh) >> sh
}

// ---- inputs ----

func (ps *PathState) inputName(tag string) string {
	if ps.tagCount == nil {
		ps.tagCount = map[string]int{}
	}
	n := ps.tagCount[tag]
	ps.tagCount[tag] = n + 1
	return fmt.Sprintf("%s#%d", tag, n)
}

func (ps *PathState) nextConcrete(tag, kind string) ReplayValue {
	if ps.concPos >= len(ps.Concrete) {
		panic(abort{AbortStop, "concrete replay exhausted at " + tag})
	}
	v := ps.Concrete[ps.concPos]
	ps.concPos++
	if v.Tag != tag || v.Kind != kind {
		panic(abort{AbortUnsupported, fmt.Sprintf("concrete replay diverged: want %s/%s got %s/%s", tag, kind, v.Tag, v.Kind)})
	}
	return v
}

func (ps *PathState) NewScalar(tag, kind string, k types.BasicKind) value {
	if ps.Concrete != nil {
		return concreteOf(ps.nextConcrete(tag, kind).U, k)
	}
	name := ps.inputName(tag)
	bits, _ := kindBits(k)
	v := ps.ctx.Var(name, smt.BV(bits))
	if k == types.Bool {
		v = ps.ctx.Var(name, smt.BoolSort)
	}
	ps.Inputs = append(ps.Inputs, Input{Tag: tag, Kind: kind, Terms: []*smt.Term{v}})
	return &sym{t: v, k: k, ps: ps}
}

func (ps *PathState) NewBytes(tag, kind string, n int) []value {
	if ps.Concrete != nil {
		v := ps.nextConcrete(tag, kind)
		r := make([]value, len(v.Bytes))
		for i, b := range v.Bytes {
			r[i] = uint8(b)
		}
		return r
	}
	name := ps.inputName(tag)
	in := Input{Tag: tag, Kind: kind, Len: n}
	r := make([]value, n)
	for i := 0; i < n; i++ {
		v := ps.ctx.Var(fmt.Sprintf("%s[%d]", name, i), smt.BV(8))
		in.Terms = append(in.Terms, v)
		r[i] = &sym{t: v, k: types.Uint8, ps: ps}
	}
	ps.Inputs = append(ps.Inputs, in)
	return r
}

// Concretise the inputs under the current model (missing vars = 0).
func (ps *PathState) replayValues() []ReplayValue {
	var out []ReplayValue
	for _, in := range ps.Inputs {
		rv := ReplayValue{Tag: in.Tag, Kind: in.Kind}
		switch in.Kind {
		case "string", "bytes":
			rv.IsStr = true
			rv.Bytes = make([]int, len(in.Terms))
			for i, t := range in.Terms {
				rv.Bytes[i] = int(ps.eval(t))
			}
		default:
			rv.U = ps.eval(in.Terms[0])
		}
		out = append(out, rv)
	}
	return out
}

func (ps *PathState) recordViolation(kind, label, msg, known string) {
	if !ps.ensureModel() {
		// cannot produce a model: count as unknown, not as a violation
		ps.Unknowns++
		return
	}
	ps.Violations = append(ps.Violations, Violation{
		Label: label, Kind: kind, Msg: msg, Values: ps.replayValues(),
		Prefix: append([]int(nil), ps.taken...), Known: known,
	})
}

// Assert checks cond on the current path (all values satisfying pc).
func (ps *PathState) Assert(cond value, label string) {
	ps.Reached[label]++
	switch c := cond.(type) {
	case bool:
		if !c {
			ps.recordViolation("assert", label, "assertion is false on this path", "")
			panic(abort{AbortStop, "assertion failed: " + label})
		}
		ps.Discharged++
		return
	case *sym:
		neg := ps.ctx.Not(c.t)
		if ps.modelValid && ps.eval(neg) == 1 {
			ps.recordViolation("assert", label, "assertion can be false", "")
		} else {
			r, m := ps.checkWith(neg, true)
			switch r {
			case smt.Sat:
				save, sv := ps.model, ps.modelValid
				ps.model, ps.modelValid = m, true
				ps.recordViolation("assert", label, "assertion can be false", "")
				ps.model, ps.modelValid = save, sv
			case smt.Unsat:
				ps.Discharged++
				ps.SolverDischarged++
				ps.crossCheck(neg, smt.Unsat)
			default:
				ps.Unknowns++
			}
		}
		// continue on the side where it holds
		ps.assumeTerm(c.t, "")
		return
	}
	panic(abort{AbortUnsupported, fmt.Sprintf("Assert on %T", cond)})
}

// KnownCheck: like Assert but a failure is recorded as a known-finding hit.
func (ps *PathState) KnownCheck(id string, cond value) {
	ps.Reached["known:"+id]++
	switch c := cond.(type) {
	case bool:
		if !c {
			ps.recordViolation("assert", "known:"+id, "known finding reproduces", id)
		}
	case *sym:
		neg := ps.ctx.Not(c.t)
		r, m := ps.checkWith(neg, true)
		if r == smt.Sat {
			save, sv := ps.model, ps.modelValid
			ps.model, ps.modelValid = m, true
			ps.recordViolation("assert", "known:"+id, "known finding reproduces", id)
			ps.model, ps.modelValid = save, sv
		} else if r == smt.Unknown {
			ps.Unknowns++
		}
	}
}

func (ps *PathState) assumeTerm(t *smt.Term, why string) {
	if b, ok := t.ConstBool(); ok {
		if !b {
			panic(abort{AbortInfeasible, "assume false " + why})
		}
		return
	}
	if ps.modelValid && ps.eval(t) == 1 {
		ps.addPC(t)
		return
	}
	ps.addPC(t)
	r, m := ps.checkWith(nil, true)
	switch r {
	case smt.Sat:
		ps.model, ps.modelValid = m, true
	case smt.Unsat:
		panic(abort{AbortInfeasible, "assumption unsatisfiable " + why})
	default:
		ps.Unknowns++
		panic(abort{AbortSolver, "unknown on assumption"})
	}
}

func (ps *PathState) Assume(cond value) {
	switch c := cond.(type) {
	case bool:
		if !c {
			panic(abort{AbortInfeasible, "assume(false)"})
		}
	case *sym:
		ps.assumeTerm(c.t, "")
	default:
		panic(abort{AbortUnsupported, fmt.Sprintf("Assume on %T", cond)})
	}
}

// CrossCheck: a sample of the final (assertion) queries is re-asked of other
// solvers as standalone scripts; a disagreement is an engine error.
type CrossCheck struct {
	Every     int      // re-ask every n-th discharged assertion query (0 = never)
	Solvers   []string // e.g. "z3-new", "cvc5"
	mu        sync.Mutex
	n         int
	Asked     int
	Disagree  []string
	TimeoutMs int
}

func (ps *PathState) crossCheck(extra *smt.Term, expect smt.Result) {
	cc := ps.Cross
	if cc == nil || cc.Every <= 0 {
		return
	}
	cc.mu.Lock()
	cc.n++
	due := cc.n%cc.Every == 0
	cc.mu.Unlock()
	if !due {
		return
	}
	ps.solver.Push()
	ps.solver.Assert(extra)
	script := ps.solver.Script()
	ps.solver.Pop()
	for _, kind := range cc.Solvers {
		r, err := smt.OneShot(kind, script, cc.TimeoutMs)
		cc.mu.Lock()
		cc.Asked++
		if err == nil && r != smt.Unknown && r != expect {
			cc.Disagree = append(cc.Disagree, fmt.Sprintf("%s answers %v where z3 answered %v", kind, r, expect))
		}
		cc.mu.Unlock()
	}
}
