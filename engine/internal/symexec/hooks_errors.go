package interp

import (
	"go/token"
	"go/types"
)

func init() {
	extraHooks = append(extraHooks, func(p *Program) {
		p.hooks["errors.Is"] = hookErrorsIs
		p.hooks["errors.As"] = hookErrorsAs
		p.hooks["github.com/pkg/errors.Is"] = hookErrorsIs
		p.hooks["github.com/pkg/errors.As"] = hookErrorsAs
	})
}

func unwrapErr(fr *frame, e iface) []iface {
	if e.t == nil {
		return nil
	}
	if m := lookupMethodByName(fr.i, e.t, "Unwrap"); m != nil && m.Signature.Params().Len() == 0 && m.Signature.Results().Len() == 1 {
		r := call(fr.i, fr, token.NoPos, m, []value{e.v})
		switch r := r.(type) {
		case iface:
			if r.t == nil {
				return nil
			}
			return []iface{r}
		case []value:
			var out []iface
			for _, x := range r {
				if it, ok := x.(iface); ok && it.t != nil {
					out = append(out, it)
				}
			}
			return out
		}
	}
	// pkg/errors uses Cause() as well, but errors.Is/As only follow Unwrap
	return nil
}

func hookErrorsIs(fr *frame, args []value) value {
	err, target := args[0].(iface), args[1].(iface)
	if err.t == nil || target.t == nil {
		return err.t == nil && target.t == nil
	}
	var walk func(e iface) bool
	walk = func(e iface) bool {
		if types.Comparable(target.t) && sameType(e.t, target.t) {
			if c := deepEq(e.t, e.v, target.v); c != nil {
				if b, ok := c.(bool); ok {
					if b {
						return true
					}
				} else if s, ok := c.(*sym); ok && s.ps.Decide(s.t) {
					return true
				}
			}
		}
		if m := lookupMethodByName(fr.i, e.t, "Is"); m != nil && m.Signature.Params().Len() == 1 {
			if r, ok := call(fr.i, fr, token.NoPos, m, []value{e.v, target}).(bool); ok && r {
				return true
			}
		}
		for _, u := range unwrapErr(fr, e) {
			if walk(u) {
				return true
			}
		}
		return false
	}
	return walk(err)
}

func hookErrorsAs(fr *frame, args []value) value {
	err, target := args[0].(iface), args[1].(iface)
	if err.t == nil {
		return false
	}
	if target.t == nil {
		panic(targetPanic{iface{types.Typ[types.String], "errors: target cannot be nil"}})
	}
	pt, ok := target.t.Underlying().(*types.Pointer)
	if !ok {
		panic(targetPanic{iface{types.Typ[types.String], "errors: target must be a non-nil pointer"}})
	}
	cell := target.v.(*value)
	if cell == nil {
		panic(targetPanic{iface{types.Typ[types.String], "errors: target must be a non-nil pointer"}})
	}
	T := pt.Elem()
	_, tIsIface := T.Underlying().(*types.Interface)
	var walk func(e iface) bool
	walk = func(e iface) bool {
		if tIsIface {
			if types.AssignableTo(e.t, T) {
				*cell = e
				return true
			}
		} else if types.Identical(e.t, T) {
			*cell = e.v
			return true
		}
		if m := lookupMethodByName(fr.i, e.t, "As"); m != nil && m.Signature.Params().Len() == 1 {
			if r, ok := call(fr.i, fr, token.NoPos, m, []value{e.v, target}).(bool); ok && r {
				return true
			}
		}
		for _, u := range unwrapErr(fr, e) {
			if walk(u) {
				return true
			}
		}
		return false
	}
	return walk(err)
}
