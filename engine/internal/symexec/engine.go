package interp

// Engine entry points: Program (shared, immutable after NewProgram) and
// RunPath (one symbolic path of one harness).

import (
	"fmt"
	"go/token"
	"go/types"
	"os"
	"runtime"
	"sort"
	"strings"

	"golang.org/x/tools/go/ssa"

	"verif/engine/internal/smt"
)

type hookFn func(fr *frame, args []value) value

// Program is the shared, read-only part of the executor.
type Program struct {
	Prog               *ssa.Program
	Sizes              types.Sizes
	runtimeErrorString types.Type
	reflectPackage     *ssa.Package
	errorMethods       methodSet
	rtypeMethods       methodSet
	hooks              map[string]hookFn
	InitAllow          func(pkgPath string) bool
	ZeroOK             func(pkgPath string) bool
	redirects          map[*ssa.Function]*ssa.Function
	RepoPrefix         string
}

func NewProgram(prog *ssa.Program, sizes types.Sizes) *Program {
	p := &Program{Prog: prog, Sizes: sizes, hooks: map[string]hookFn{}, redirects: map[*ssa.Function]*ssa.Function{}}
	runtimePkg := prog.ImportedPackage("runtime")
	if runtimePkg == nil {
		panic("ssa.Program doesn't include runtime package")
	}
	p.runtimeErrorString = runtimePkg.Type("errorString").Object().Type()
	tmp := &interpreter{prog: prog}
	initReflect(tmp)
	p.reflectPackage, p.errorMethods, p.rtypeMethods = tmp.reflectPackage, tmp.errorMethods, tmp.rtypeMethods
	registerHooks(p)
	for _, f := range extraHooks {
		f(p)
	}
	return p
}

// Redirect makes every call of from run to instead (same signature shape).
func (p *Program) Redirect(from, to *ssa.Function) { p.redirects[from] = to }

type Config struct {
	StepCap     int
	DepthCap    int
	Trace       bool
	ActiveKnown map[string]bool
	Tier        int
	WantWitness bool
	Concrete    []ReplayValue
	Verbose     bool
	Cross       *CrossCheck
}

type PathResult struct {
	Outcome          string // ok | panic | abort kind
	Msg              string
	Taken            []int
	Pending          [][]int
	Violations       []Violation
	Reached          map[string]int
	Discharged       int
	SolverDischarged int
	Unknowns         int
	Steps            int
	Decisions        int
	Forced           int
	Stubs            map[string]bool
	Outside          []string
	Assumes          []string
	Inputs           int
	Witness          []ReplayValue // model of the path (ok paths when requested; unwound/unsupported paths)
}

// extra interpreter state (fields added to the fork's interpreter struct)
type engineState struct {
	P          *Program
	ps         *PathState
	cfg        Config
	depth      int
	inited     map[*types.Package]bool
	Covered    map[*ssa.Function]int
	stubs      map[string]bool
	symKeys    bool
	panicStack string
	uuidN      int
	pools      map[*value][]value // sync.Pool model: LIFO free list per pool
	files      map[*value]string  // modelled *os.File handles -> path in the mbolt registry
}

func (i *interpreter) noteStub(s string) {
	if i.es.stubs != nil {
		i.es.stubs[s] = true
	}
}

func (i *interpreter) step(fr *frame, instr ssa.Instruction) {
	ps := i.es.ps
	ps.Steps++
	if ps.Steps > ps.StepCap {
		panic(abort{AbortUnwound, fmt.Sprintf("step cap %d exceeded in %s", ps.StepCap, fr.fn)})
	}
}

func (ps *PathState) outside(what string) {
	ps.Outside = append(ps.Outside, what)
	panic(abort{AbortOutside, what})
}

func checkIndex(idx value, n int) int64 {
	if s, ok := idx.(*sym); ok {
		return concretizeIndex(s, n, "index")
	}
	k := asInt64(idx)
	if k < 0 || k >= int64(n) {
		panic(runtimeErrorString(fmt.Sprintf("index out of range [%d] with length %d", k, n)))
	}
	return k
}

func concretizeSize(v value) int64 {
	if s, ok := v.(*sym); ok {
		n, ok := s.ps.Concretize(s, 0, 16)
		if !ok {
			s.ps.outside("symbolic make() size outside 0..16")
		}
		return n
	}
	return asInt64(v)
}

type symKeyBox struct {
	v   value
	seq int
}

// symMapKey resolves a key for a map operation when symbolic keys are in
// play: it forks on equality with each existing key. Returns the stored key
// (concrete value or *symKeyBox), or nil when absent and !insert.
func symMapKey(i *interpreter, m value, key value, insert bool) value {
	mm, ok := m.(map[value]value)
	if !ok {
		panic(abort{AbortUnsupported, fmt.Sprintf("symbolic key in %T", m)})
	}
	var conc []value
	var boxes []*symKeyBox
	for k := range mm {
		if b, ok := k.(*symKeyBox); ok {
			boxes = append(boxes, b)
		} else {
			conc = append(conc, k)
		}
	}
	sort.Slice(conc, func(a, b int) bool { return keyLess(conc[a], conc[b]) })
	sort.Slice(boxes, func(a, b int) bool { return boxes[a].seq < boxes[b].seq })
	try := func(stored value, kv value) bool {
		c := deepEq(nil, key, kv)
		switch c := c.(type) {
		case bool:
			return c
		case *sym:
			return c.ps.Decide(c.t)
		}
		panic("symMapKey")
	}
	if !containsSym(key) {
		// a concrete key equals a concrete stored key exactly when Go's map
		// finds it; only boxed (symbolic) keys need a comparison, and those are
		// strings / byte-wise comparable values
		if _, present := mm[key]; present {
			return key
		}
		switch key.(type) {
		case string, symStr:
		default:
			if len(boxes) > 0 {
				if _, isStr := boxes[0].v.(symStr); isStr {
					boxes = nil
				}
			}
		}
	} else {
		for _, k := range conc {
			if try(k, k) {
				return k
			}
		}
	}
	for _, b := range boxes {
		if try(b, b.v) {
			return b
		}
	}
	if !insert {
		return nil
	}
	if !containsSym(key) {
		return key
	}
	i.es.symKeys = true
	return &symKeyBox{v: key, seq: len(boxes) + 1}
}

func unboxKey(k value) value {
	if b, ok := k.(*symKeyBox); ok {
		return b.v
	}
	return k
}

// RunPath executes harness once, forcing the decision prefix, and returns what
// happened. The solver must be dedicated to this call (it is Reset here).
func (p *Program) RunPath(harness *ssa.Function, prefix []int, solver *smt.Solver, cfg Config, covered map[*ssa.Function]int) (res *PathResult) {
	solver.Reset()
	ps := &PathState{
		ctx: smt.NewCtx(), solver: solver, prefix: prefix,
		Reached: map[string]int{}, StepCap: cfg.StepCap, ActiveKnown: cfg.ActiveKnown,
		Concrete: cfg.Concrete, Verbose: cfg.Verbose, Cross: cfg.Cross,
	}
	i := &interpreter{
		prog:               p.Prog,
		globals:            make(map[*ssa.Global]*value),
		sizes:              p.Sizes,
		goroutines:         1,
		runtimeErrorString: p.runtimeErrorString,
		reflectPackage:     p.reflectPackage,
		errorMethods:       p.errorMethods,
		rtypeMethods:       p.rtypeMethods,
	}
	if cfg.Trace {
		i.mode |= EnableTracing
	}
	i.es = engineState{P: p, ps: ps, cfg: cfg, inited: map[*types.Package]bool{}, Covered: covered, stubs: map[string]bool{}}
	res = &PathResult{Outcome: "ok"}
	defer func() {
		if r := recover(); r != nil {
			switch r := r.(type) {
			case abort:
				res.Outcome = r.kind.String()
				res.Msg = r.msg
			case targetPanic:
				res.Outcome = "panic"
				res.Msg = "panic: " + panicText(i, r.v)
			case runtime.Error:
				msg := r.Error()
				if strings.Contains(msg, "interp.") || strings.Contains(msg, "smt.") {
					res.Outcome = "unsupported"
					res.Msg = "executor: " + msg + "\n" + shortStack()
				} else {
					res.Outcome = "panic"
					res.Msg = msg
					if os.Getenv("VERIF_DEBUG_PANIC") != "" {
						res.Msg += "\n" + shortStack()
					}
				}
			case string:
				// interp-internal panics are strings: some model Go run-time panics
				if isTargetPanicString(r) {
					res.Outcome = "panic"
					res.Msg = r
				} else {
					res.Outcome = "unsupported"
					res.Msg = "executor: " + r + "\n" + shortStack()
				}
			default:
				res.Outcome = "unsupported"
				res.Msg = fmt.Sprintf("executor: unexpected panic %T %v\n%s", r, r, shortStack())
			}
			if res.Outcome == "panic" {
				res.Msg += " @ " + i.es.panicStack
				ps.Reached["panic"]++
				ps.recordViolation("panic", "panic", res.Msg, "")
			}
		}
		if (res.Outcome == "ok" && cfg.WantWitness) || res.Outcome == "unwound" || res.Outcome == "unsupported" {
			func() {
				defer func() { recover() }()
				if ps.ensureModel() {
					res.Witness = ps.replayValues()
				}
			}()
		}
		res.Taken = ps.taken
		res.Pending = ps.Pending
		res.Violations = ps.Violations
		res.Reached = ps.Reached
		res.Discharged = ps.Discharged
		res.SolverDischarged = ps.SolverDischarged
		res.Unknowns = ps.Unknowns
		res.Steps = ps.Steps
		res.Decisions = ps.Decisions
		res.Forced = ps.Forced
		res.Stubs = i.es.stubs
		res.Outside = ps.Outside
		res.Assumes = ps.Assumes
		res.Inputs = len(ps.Inputs)
	}()
	// package initialisation (allow-listed packages only), then the harness
	if init := harness.Pkg.Func("init"); init != nil {
		call(i, nil, token.NoPos, init, nil)
	}
	call(i, nil, token.NoPos, harness, nil)
	return res
}

func isTargetPanicString(s string) bool {
	for _, p := range []string{"method invoked on nil interface", "call of nil function", "interface conversion:", "value method ", "array length is greater", "assignment to entry in nil map"} {
		if strings.HasPrefix(s, p) {
			return true
		}
	}
	return false
}

func shortStack() string {
	buf := make([]byte, 1<<14)
	n := runtime.Stack(buf, false)
	lines := strings.Split(string(buf[:n]), "\n")
	var keep []string
	for _, l := range lines {
		if strings.Contains(l, "symexec") && !strings.Contains(l, "engine.go") {
			keep = append(keep, strings.TrimSpace(l))
			if len(keep) > 12 {
				break
			}
		}
	}
	return strings.Join(keep, "\n")
}

// panicText renders a target panic value for reports.
func panicText(i *interpreter, v value) string {
	if itf, ok := v.(iface); ok {
		if s, ok := itf.v.(string); ok {
			return s
		}
		if itf.t != nil {
			// error / Stringer values: try Error()
			if m := lookupMethodByName(i, itf.t, "Error"); m != nil {
				func() {
					defer func() { recover() }()
					r := call(i, nil, token.NoPos, m, []value{itf.v})
					if s, ok := r.(string); ok {
						v = s
					}
				}()
				if s, ok := v.(string); ok {
					return s
				}
			}
		}
	}
	return toString(v)
}

func lookupMethodByName(i *interpreter, t types.Type, name string) *ssa.Function {
	ms := i.prog.MethodSets.MethodSet(t)
	for k := 0; k < ms.Len(); k++ {
		if ms.At(k).Obj().Name() == name {
			return i.prog.MethodValue(ms.At(k))
		}
	}
	return nil
}
