package interp

// Hooks: the verifrt API (symbolic inputs, assume/assert) and intrinsics for
// leaf std functions that cannot be interpreted (assembly, unsafe, sync).

import (
	"fmt"
	"go/token"
	"go/types"
	"math"
	"os"
	"runtime"
	"strconv"
	"strings"

	"verif/engine/internal/smt"
)

const rtPkg = "github.com/openziti/storage/verifrt"

func registerHooks(p *Program) {
	h := p.hooks
	scalar := func(kind string, k types.BasicKind) hookFn {
		return func(fr *frame, args []value) value {
			return fr.i.es.ps.NewScalar(args[0].(string), kind, k)
		}
	}
	h[rtPkg+".Bool"] = scalar("bool", types.Bool)
	h[rtPkg+".Int64"] = scalar("int64", types.Int64)
	h[rtPkg+".Int32"] = scalar("int32", types.Int32)
	h[rtPkg+".Int"] = scalar("int", types.Int)
	h[rtPkg+".Uint8"] = scalar("uint8", types.Uint8)
	h[rtPkg+".Uint64"] = scalar("uint64", types.Uint64)
	h[rtPkg+".Float64"] = scalar("float64bits", types.Float64)
	h[rtPkg+".String"] = func(fr *frame, args []value) value {
		n := int(asInt64(args[1]))
		return mkStr(fr.i.es.ps.NewBytes(args[0].(string), "string", n))
	}
	h[rtPkg+".Bytes"] = func(fr *frame, args []value) value {
		n := int(asInt64(args[1]))
		return fr.i.es.ps.NewBytes(args[0].(string), "bytes", n)
	}
	h[rtPkg+".Choose"] = func(fr *frame, args []value) value {
		ps := fr.i.es.ps
		n := asInt64(args[1])
		sv := ps.NewScalar(args[0].(string), "int", types.Int)
		s, isSym := sv.(*sym)
		if !isSym {
			return sv
		}
		return int(ps.ChooseFresh(s, n))
	}
	h[rtPkg+".Assume"] = func(fr *frame, args []value) value {
		fr.i.es.ps.Assume(args[0])
		return nil
	}
	h[rtPkg+".Assert"] = func(fr *frame, args []value) value {
		fr.i.es.ps.Assert(args[0], args[1].(string))
		return nil
	}
	h[rtPkg+".Reach"] = func(fr *frame, args []value) value {
		fr.i.es.ps.Reached[args[0].(string)]++
		return nil
	}
	h[rtPkg+".Outside"] = func(fr *frame, args []value) value {
		fr.i.es.ps.outside(args[0].(string))
		return nil
	}
	h[rtPkg+".Unsupported"] = func(fr *frame, args []value) value {
		panic(abort{AbortUnsupported, toString(args[0])})
	}
	h[rtPkg+".Symbolic"] = func(fr *frame, args []value) value { return true }
	h[rtPkg+".Known"] = func(fr *frame, args []value) value {
		if fr.i.es.ps.ActiveKnown[args[0].(string)] {
			return args[1]
		}
		return false
	}
	h[rtPkg+".KnownCheck"] = func(fr *frame, args []value) value {
		fr.i.es.ps.KnownCheck(args[0].(string), args[1])
		return nil
	}
	h[rtPkg+".And"] = func(fr *frame, args []value) value { return andVal(args[0], args[1]) }
	h[rtPkg+".Or"] = func(fr *frame, args []value) value { return notVal(andVal(notVal(args[0]), notVal(args[1]))) }
	h[rtPkg+".Not"] = func(fr *frame, args []value) value { return notVal(args[0]) }
	h[rtPkg+".InRange"] = func(fr *frame, args []value) value {
		return andVal(binop(token.LEQ, nil, args[1], args[0]), binop(token.LEQ, nil, args[0], args[2]))
	}
	ite := func(fr *frame, args []value) value {
		switch c := args[0].(type) {
		case bool:
			if c {
				return args[1]
			}
			return args[2]
		case *sym:
			ps := c.ps
			k := kindOf(args[1])
			return ps.mkval(ps.ctx.Ite(c.t, ps.term(args[1]), ps.term(args[2])), k)
		}
		panic("ite")
	}
	h[rtPkg+".IteByte"] = ite
	h[rtPkg+".IteInt64"] = ite
	h[rtPkg+".IteBool"] = ite
	h[rtPkg+".IteInt"] = ite
	h[rtPkg+".OpenDB"] = func(fr *frame, args []value) value {
		mb := fr.i.prog.ImportedPackage(rtPkg + "/mbolt")
		if mb == nil {
			panic(abort{AbortUnsupported, "mbolt model not loaded"})
		}
		fr.i.noteStub("go.etcd.io/bbolt: replaced by the mbolt model (validated against real bbolt by harness/verifrt/mbolt/diff_test.go)")
		return call(fr.i, fr, token.NoPos, mb.Func("NewDB"), nil)
	}
	// database files (Snapshot / RestoreFromReader): os.Create / os.Open /
	// io.Copy / os.Rename / (*os.File).Close act on the mbolt registry of
	// database images by path; file handles are opaque cells
	fileCell := func(fr *frame, path string) value {
		es := &fr.i.es
		if es.files == nil {
			es.files = map[*value]string{}
		}
		var st value = structure{(*value)(nil)}
		cell := &st
		es.files[cell] = path
		return cell
	}
	mboltFn := func(fr *frame, name string, args ...value) value {
		mb := fr.i.prog.ImportedPackage(rtPkg + "/mbolt")
		if mb == nil || mb.Func(name) == nil {
			panic(abort{AbortUnsupported, "mbolt." + name + " not loaded"})
		}
		return call(fr.i, fr, token.NoPos, mb.Func(name), args)
	}
	pathErr := func(fr *frame, op, path string) value {
		return makeFmtError(fr.i, op+" "+path+": no such file or directory", nil)
	}
	h["os.Create"] = func(fr *frame, args []value) value {
		path, ok := args[0].(string)
		if !ok {
			panic(abort{AbortUnsupported, "os.Create of a symbolic path"})
		}
		fr.i.noteStub("os.Create/Open/Rename, io.Copy, (*os.File).Close: database files are entries of the mbolt registry (path -> database image)")
		mboltFn(fr, "CreatePath", path)
		return tuple{fileCell(fr, path), iface{}}
	}
	h["os.Open"] = func(fr *frame, args []value) value {
		path, ok := args[0].(string)
		if !ok {
			panic(abort{AbortUnsupported, "os.Open of a symbolic path"})
		}
		if !mboltFn(fr, "PathExists", path).(bool) {
			return tuple{(*value)(nil), pathErr(fr, "open", path)}
		}
		return tuple{fileCell(fr, path), iface{}}
	}
	h["(*os.File).Close"] = func(fr *frame, args []value) value { return iface{} }
	h["os.Rename"] = func(fr *frame, args []value) value {
		from, ok1 := args[0].(string)
		to, ok2 := args[1].(string)
		if !ok1 || !ok2 {
			panic(abort{AbortUnsupported, "os.Rename of a symbolic path"})
		}
		if !mboltFn(fr, "RenamePath", from, to).(bool) {
			return pathErr(fr, "rename", from)
		}
		return iface{}
	}
	h["os.Remove"] = func(fr *frame, args []value) value {
		path, ok := args[0].(string)
		if !ok {
			panic(abort{AbortUnsupported, "os.Remove of a symbolic path"})
		}
		if !mboltFn(fr, "RemovePath", path).(bool) {
			return pathErr(fr, "remove", path)
		}
		return iface{}
	}
	h["io.Copy"] = func(fr *frame, args []value) value {
		es := &fr.i.es
		fileOf := func(v value) (string, bool) {
			itf, ok := v.(iface)
			if !ok {
				return "", false
			}
			c, ok := itf.v.(*value)
			if !ok {
				return "", false
			}
			p, ok := es.files[c]
			return p, ok
		}
		dst, ok1 := fileOf(args[0])
		src, ok2 := fileOf(args[1])
		if !ok1 || !ok2 {
			panic(abort{AbortUnsupported, "io.Copy between values that are not modelled database files"})
		}
		if !mboltFn(fr, "CopyPath", src, dst).(bool) {
			return tuple{int64(0), pathErr(fr, "read", src)}
		}
		return tuple{int64(1), iface{}}
	}

	// storage fault: verifrt.SetPutFault / DisarmPutFault / PutFaultFired drive
	// the countdown of the mbolt model (natively: the countdown overlaid at
	// bbolt's own beforeBucketPut failpoint)
	mboltCall := func(name string, nargs int) hookFn {
		return func(fr *frame, args []value) value {
			mb := fr.i.prog.ImportedPackage(rtPkg + "/mbolt")
			if mb == nil || mb.Func(name) == nil {
				panic(abort{AbortUnsupported, "mbolt." + name + " not loaded"})
			}
			fr.i.noteStub("storage fault: the k-th bbolt Bucket.Put fails (mbolt model; natively bbolt's own beforeBucketPut failpoint)")
			return call(fr.i, fr, token.NoPos, mb.Func(name), args[:nargs])
		}
	}
	h[rtPkg+".SetPutFault"] = mboltCall("SetFault", 1)
	h[rtPkg+".DisarmPutFault"] = mboltCall("Disarm", 0)
	h[rtPkg+".PutFaultFired"] = mboltCall("Fired", 0)
	h[rtPkg+".TempPath"] = func(fr *frame, args []value) value { return "/mbolt/tmp/" + args[0].(string) }
	h[rtPkg+".CleanupDBs"] = func(fr *frame, args []value) value { return nil }
	h[rtPkg+".IsConcrete"] = func(fr *frame, args []value) value {
		_, ok := args[0].(string)
		return ok
	}
	h[rtPkg+".Settle"] = func(fr *frame, args []value) value { return nil }
	h[rtPkg+".Catch"] = hookCatch
	h[rtPkg+".Tier"] = func(fr *frame, args []value) value { return fr.i.es.cfg.Tier }
	h[rtPkg+".Logf"] = func(fr *frame, args []value) value {
		if fr.i.es.cfg.Verbose {
			b := formatf(fr, args[0], args[1].([]value))
			fmt.Fprintln(os.Stderr, "LOG:", toString(mkStr(b)))
		}
		return nil
	}

	// ---- intrinsics ----
	h["internal/bytealg.Compare"] = func(fr *frame, args []value) value {
		a, b := args[0].([]value), args[1].([]value)
		return bytesCompare(a, b)
	}
	h["bytes.Compare"] = h["internal/bytealg.Compare"]
	h["internal/bytealg.Equal"] = func(fr *frame, args []value) value {
		return bytesEqual(args[0].([]value), args[1].([]value))
	}
	h["bytes.Equal"] = h["internal/bytealg.Equal"]
	h["internal/bytealg.IndexByte"] = func(fr *frame, args []value) value {
		return indexOf(args[0].([]value), []value{args[1]})
	}
	h["bytes.IndexByte"] = h["internal/bytealg.IndexByte"]
	h["internal/bytealg.IndexByteString"] = func(fr *frame, args []value) value {
		return indexOf(strBytes(args[0]), []value{args[1]})
	}
	h["strings.IndexByte"] = h["internal/bytealg.IndexByteString"]
	h["strings.Index"] = func(fr *frame, args []value) value {
		return indexOf(strBytes(args[0]), strBytes(args[1]))
	}
	h["bytes.Index"] = func(fr *frame, args []value) value {
		return indexOf(args[0].([]value), args[1].([]value))
	}
	h["strings.Contains"] = func(fr *frame, args []value) value {
		idx := indexOf(strBytes(args[0]), strBytes(args[1]))
		return binop(token.GEQ, nil, idx, 0)
	}
	h["strings.Compare"] = func(fr *frame, args []value) value {
		return bytesCompare(strBytes(args[0]), strBytes(args[1]))
	}
	h["strings.Replace"] = func(fr *frame, args []value) value {
		return stringsReplace(fr, args[0], args[1], args[2], int(asInt64(args[3])))
	}
	h["strings.ReplaceAll"] = func(fr *frame, args []value) value {
		return stringsReplace(fr, args[0], args[1], args[2], -1)
	}
	h["strings.ToUpper"] = func(fr *frame, args []value) value { return caseMap(fr, args[0], true) }
	h["strings.ToLower"] = func(fr *frame, args []value) value { return caseMap(fr, args[0], false) }
	h["strings.EqualFold"] = func(fr *frame, args []value) value {
		return binop(token.EQL, nil, caseMap(fr, args[0], false), caseMap(fr, args[1], false))
	}
	h["strings.Count"] = func(fr *frame, args []value) value {
		if s, ok := args[0].(string); ok {
			if t, ok := args[1].(string); ok {
				return strings.Count(s, t)
			}
		}
		panic(abort{AbortUnsupported, "strings.Count on symbolic strings"})
	}
	h["math.Float64bits"] = func(fr *frame, args []value) value {
		if s, ok := args[0].(*sym); ok {
			return &sym{t: s.t, k: types.Uint64, ps: s.ps}
		}
		return math.Float64bits(args[0].(float64))
	}
	h["math.Float64frombits"] = func(fr *frame, args []value) value {
		if s, ok := args[0].(*sym); ok {
			return &sym{t: s.t, k: types.Float64, ps: s.ps}
		}
		return math.Float64frombits(args[0].(uint64))
	}
	h["math.IsNaN"] = func(fr *frame, args []value) value {
		if s, ok := args[0].(*sym); ok {
			return s.ps.mkval(s.ps.ctx.FIsNaN(s.t), types.Bool)
		}
		return math.IsNaN(args[0].(float64))
	}
	h["strconv.Itoa"] = func(fr *frame, args []value) value {
		return formatInt(fr, args[0], 10)
	}
	h["strconv.FormatInt"] = func(fr *frame, args []value) value {
		return formatInt(fr, args[0], int(asInt64(args[1])))
	}
	h["strconv.FormatFloat"] = func(fr *frame, args []value) value {
		f, ok := args[0].(float64)
		if !ok {
			fr.i.es.ps.outside("strconv.FormatFloat of a symbolic float")
		}
		return strconv.FormatFloat(f, byte(asInt64(args[1])), int(asInt64(args[2])), int(asInt64(args[3])))
	}
	h["strconv.FormatBool"] = func(fr *frame, args []value) value {
		switch b := args[0].(type) {
		case bool:
			return strconv.FormatBool(b)
		case *sym:
			if b.ps.Decide(b.t) {
				return "true"
			}
			return "false"
		}
		panic("FormatBool")
	}
	h["internal/stringslite.Clone"] = func(fr *frame, args []value) value { return args[0] }
	h["strings.Clone"] = func(fr *frame, args []value) value { return args[0] }
	h["strconv.ParseFloat"] = func(fr *frame, args []value) value {
		s, ok := args[0].(string)
		if !ok {
			panic(abort{AbortUnsupported, "strconv.ParseFloat of a symbolic string"})
		}
		f, err := strconv.ParseFloat(s, int(asInt64(args[1])))
		if err != nil {
			return tuple{f, makeFmtError(fr.i, err.Error(), nil)}
		}
		return tuple{f, iface{}}
	}
	h["strconv.ParseInt"] = func(fr *frame, args []value) value {
		s, ok := args[0].(string)
		if !ok {
			panic(abort{AbortUnsupported, "strconv.ParseInt of a symbolic string"})
		}
		n, err := strconv.ParseInt(s, int(asInt64(args[1])), int(asInt64(args[2])))
		if err != nil {
			return tuple{n, makeFmtError(fr.i, err.Error(), nil)}
		}
		return tuple{n, iface{}}
	}
	h["strconv.ParseBool"] = func(fr *frame, args []value) value {
		s, ok := args[0].(string)
		if !ok {
			panic(abort{AbortUnsupported, "strconv.ParseBool of a symbolic string"})
		}
		b, err := strconv.ParseBool(s)
		if err != nil {
			return tuple{b, makeFmtError(fr.i, err.Error(), nil)}
		}
		return tuple{b, iface{}}
	}
	h["strconv.Quote"] = func(fr *frame, args []value) value {
		if s, ok := args[0].(string); ok {
			return strconv.Quote(s)
		}
		panic(abort{AbortUnsupported, "strconv.Quote of symbolic string"})
	}

	// sync: sequential cell semantics (single schedule)
	for _, n := range []string{
		"(*sync.Mutex).Lock", "(*sync.Mutex).Unlock", "(*sync.RWMutex).Lock", "(*sync.RWMutex).Unlock",
		"(*sync.RWMutex).RLock", "(*sync.RWMutex).RUnlock", "(*sync.WaitGroup).Add", "(*sync.WaitGroup).Done", "(*sync.WaitGroup).Wait",
		"runtime.Gosched", "runtime.GC", "runtime.KeepAlive", "runtime.SetFinalizer",
	} {
		name := n
		h[name] = func(fr *frame, args []value) value {
			fr.i.noteStub(name + ": no-op (sequential execution)")
			return nil
		}
	}
	h["(*sync.Mutex).TryLock"] = func(fr *frame, args []value) value { return true }
	h["(*sync.Once).Do"] = func(fr *frame, args []value) value {
		// Once{done, m}: use field 0 as the flag
		cell := args[0].(*value)
		st := (*cell).(structure)
		if doneFlagSet(st[0]) {
			return nil
		}
		st[0] = setDoneFlag(st[0])
		call(fr.i, fr, token.NoPos, args[1], nil)
		return nil
	}
	// sync.Pool: single-goroutine behaviour without GC - Get hands back the most
	// recently Put object, else New()
	h["(*sync.Pool).Put"] = func(fr *frame, args []value) value {
		es := &fr.i.es
		if es.pools == nil {
			es.pools = map[*value][]value{}
		}
		if x, ok := args[1].(iface); ok && x.t == nil {
			return nil
		}
		cell := args[0].(*value)
		if os.Getenv("VERIF_DEBUG_POOL") != "" {
			fmt.Fprintf(os.Stderr, "POOL put %p %T\n", cell, args[1])
		}
		es.pools[cell] = append(es.pools[cell], args[1])
		return nil
	}
	h["(*sync.Pool).Get"] = func(fr *frame, args []value) value {
		es := &fr.i.es
		cell := args[0].(*value)
		fr.i.noteStub("sync.Pool: Get returns the most recently Put object (no GC, one goroutine), else New()")
		if os.Getenv("VERIF_DEBUG_POOL") != "" {
			fmt.Fprintf(os.Stderr, "POOL get %p n=%d\n", cell, len(es.pools[cell]))
		}
		if l := es.pools[cell]; len(l) > 0 {
			x := l[len(l)-1]
			es.pools[cell] = l[:len(l)-1]
			return x
		}
		st := (*cell).(structure)
		newFn := st[len(st)-1]
		if newFn == nil {
			return iface{}
		}
		if c, ok := newFn.(*closure); ok && c == nil {
			return iface{}
		}
		return call(fr.i, fr, token.NoPos, newFn, nil)
	}
	// context.WithValue checks key comparability through reflectlite (not
	// interpreted); the valueCtx itself and every Value lookup are interpreted
	h["context.WithValue"] = func(fr *frame, args []value) value {
		cp := fr.i.prog.ImportedPackage("context")
		if cp == nil || cp.Type("valueCtx") == nil {
			panic(abort{AbortUnsupported, "context.valueCtx not loaded"})
		}
		if p, ok := args[0].(iface); ok && p.t == nil {
			panic(targetPanic{v: "cannot create context from nil parent"})
		}
		t := cp.Type("valueCtx").Object().Type()
		var cell value = structure{args[0], args[1], args[2]}
		return iface{t: types.NewPointer(t), v: &cell}
	}
	h["runtime.Caller"] = func(fr *frame, args []value) value {
		return tuple{uintptr(0), "verif", 0, false}
	}
	h["runtime.Callers"] = func(fr *frame, args []value) value { return 0 }
	h["runtime.NumCPU"] = func(fr *frame, args []value) value { return runtime.NumCPU() }
	h["os.Getenv"] = func(fr *frame, args []value) value { return "" }
	h["time.Now"] = func(fr *frame, args []value) value {
		fr.i.noteStub("time.Now: fixed instant (wall=0, ext=63800000000, loc=nil)")
		// time.Time{wall uint64, ext int64, loc *Location}
		return structure{uint64(0), int64(63800000000), (*value)(nil)}
	}
	h["time.Sleep"] = func(fr *frame, args []value) value { return nil }
	h["github.com/google/uuid.NewString"] = func(fr *frame, args []value) value {
		fr.i.noteStub("uuid.NewString: fresh opaque id per call")
		fr.i.es.uuidN++
		return fmt.Sprintf("00000000-0000-4000-8000-%012d", fr.i.es.uuidN)
	}
}

func doneFlagSet(v value) bool {
	switch v := v.(type) {
	case uint32:
		return v != 0
	case structure: // atomic.Uint32{_ noCopy, v uint32}
		for _, f := range v {
			if u, ok := f.(uint32); ok {
				return u != 0
			}
		}
	}
	return false
}

func setDoneFlag(v value) value {
	switch v := v.(type) {
	case uint32:
		return uint32(1)
	case structure:
		for k, f := range v {
			if _, ok := f.(uint32); ok {
				v[k] = uint32(1)
			}
		}
		return v
	}
	return v
}

func hookCatch(fr *frame, args []value) (res value) {
	// func Catch(f func()) (panicked bool, msg string)
	defer func() {
		if r := recover(); r != nil {
			switch r := r.(type) {
			case abort:
				panic(r)
			case targetPanic:
				res = tuple{true, panicText(fr.i, r.v)}
			case runtime.Error:
				msg := r.Error()
				if strings.Contains(msg, "interp.") || strings.Contains(msg, "smt.") {
					panic(abort{AbortUnsupported, "executor: " + msg + "\n" + shortStack()})
				}
				res = tuple{true, msg}
			case string:
				if isTargetPanicString(r) {
					res = tuple{true, r}
				} else {
					panic(abort{AbortUnsupported, "executor: " + r + "\n" + shortStack()})
				}
			default:
				panic(r)
			}
		}
	}()
	call(fr.i, fr, token.NoPos, args[0], nil)
	return tuple{false, ""}
}

func anySym(vs ...[]value) *PathState {
	for _, v := range vs {
		for _, e := range v {
			if s, ok := e.(*sym); ok {
				return s.ps
			}
		}
	}
	return nil
}

func concBytes(a []value) []byte {
	r := make([]byte, len(a))
	for i, e := range a {
		r[i] = e.(uint8)
	}
	return r
}

func bytesCompare(a, b []value) value {
	ps := anySym(a, b)
	if ps == nil {
		return strings.Compare(string(concBytes(a)), string(concBytes(b)))
	}
	return ps.mkval(ps.bytesCompareTerm(a, b), types.Int)
}

func bytesEqual(a, b []value) value {
	ps := anySym(a, b)
	if ps == nil {
		return string(concBytes(a)) == string(concBytes(b))
	}
	return ps.mkval(ps.bytesEqTerm(a, b), types.Bool)
}

// indexOf: first index of sub in s, or -1 (ite chain, no forking).
func indexOf(s, sub []value) value {
	ps := anySym(s, sub)
	if ps == nil {
		return strings.Index(string(concBytes(s)), string(concBytes(sub)))
	}
	c := ps.ctx
	r := c.Const(smt.BV(64), ^uint64(0))
	for i := len(s) - len(sub); i >= 0; i-- {
		m := ps.bytesEqTerm(s[i:i+len(sub)], sub)
		r = c.Ite(m, c.Const(smt.BV(64), uint64(i)), r)
	}
	return ps.mkval(r, types.Int)
}

// stringsReplace: left-to-right, non-overlapping; forks on each match test.
func stringsReplace(fr *frame, sv, oldv, newv value, n int) value {
	s, old, nw := strBytes(sv), strBytes(oldv), strBytes(newv)
	ps := anySym(s, old, nw)
	if ps == nil {
		return strings.Replace(string(concBytes(s)), string(concBytes(old)), string(concBytes(nw)), n)
	}
	if len(old) == 0 {
		panic(abort{AbortUnsupported, "strings.Replace with empty old on symbolic string"})
	}
	var out []value
	i := 0
	for i < len(s) {
		if n != 0 && i+len(old) <= len(s) {
			if ps.Decide(ps.bytesEqTerm(s[i:i+len(old)], old)) {
				out = append(out, nw...)
				i += len(old)
				if n > 0 {
					n--
				}
				continue
			}
		}
		out = append(out, s[i])
		i++
	}
	return mkStr(out)
}

// caseMap: ASCII upper/lower; a non-ASCII symbolic byte is outside the claim.
func caseMap(fr *frame, sv value, upper bool) value {
	if s, ok := sv.(string); ok {
		if upper {
			return strings.ToUpper(s)
		}
		return strings.ToLower(s)
	}
	b := strBytes(sv)
	out := make([]value, len(b))
	for i, e := range b {
		switch e := e.(type) {
		case uint8:
			if e >= 0x80 {
				panic(abort{AbortUnsupported, "case mapping of non-ASCII bytes next to symbolic bytes"})
			}
			if upper {
				out[i] = strings.ToUpper(string(rune(e)))[0]
			} else {
				out[i] = strings.ToLower(string(rune(e)))[0]
			}
		case *sym:
			ps := e.ps
			c := ps.ctx
			if !ps.Decide(c.Cmp(smt.OpULt, e.t, c.Const(smt.BV(8), 0x80))) {
				ps.outside("non-ASCII byte under case mapping")
			}
			var lo, hi uint64 = 'a', 'z'
			var delta uint64 = 0xE0 // -32
			if !upper {
				lo, hi, delta = 'A', 'Z', 0x20
			}
			in := c.And(c.Cmp(smt.OpULe, c.Const(smt.BV(8), lo), e.t), c.Cmp(smt.OpULe, e.t, c.Const(smt.BV(8), hi)))
			out[i] = ps.mkval(c.Ite(in, c.Bin(smt.OpAdd, e.t, c.Const(smt.BV(8), delta)), e.t), types.Uint8)
		}
	}
	return mkStr(out)
}

func formatInt(fr *frame, v value, base int) value {
	if s, ok := v.(*sym); ok {
		// decimal rendering of a symbolic integer: fork over a small range only
		if base != 10 {
			panic(abort{AbortUnsupported, "FormatInt base != 10 on symbolic"})
		}
		n, ok := s.ps.Concretize(s, -10, 10)
		if !ok {
			s.ps.outside("decimal rendering of a symbolic integer outside [-10,10]")
		}
		return strconv.FormatInt(n, 10)
	}
	return strconv.FormatInt(asInt64(v), base)
}

var _ = fmt.Sprintf
