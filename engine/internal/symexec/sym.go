package interp

// Symbolic value layer: symbolic scalars (*sym), strings with concrete length
// and symbolic bytes (symStr), the per-path state (path condition, decision
// vector, solver), and the abort kinds of the executor.

import (
	"fmt"
	"go/token"
	"go/types"
	"math"

	"verif/engine/internal/smt"
)

// sym is a symbolic scalar: bool, any integer kind, or float64 (as its bits).
type sym struct {
	t  *smt.Term
	k  types.BasicKind // canonical kind: Bool, Int..Uintptr, Float64
	ps *PathState
}

// symStr is a string of concrete length whose bytes are uint8 or *sym(Uint8).
type symStr struct {
	b []value
}

// AbortKind classifies executor-level aborts (distinct from target panics).
type AbortKind int

const (
	AbortInfeasible  AbortKind = iota // path condition unsatisfiable (assume failed / forced prefix infeasible)
	AbortUnsupported                  // construct outside the executor
	AbortUnwound                      // step / loop cap exceeded
	AbortSolver                       // solver unknown / error
	AbortStop                         // harness asked to end the path (e.g. after a violation)
	AbortOutside                      // input region declared outside the claim (recorded)
)

func (k AbortKind) String() string {
	return [...]string{"infeasible", "unsupported", "unwound", "solver", "stop", "outside"}[k]
}

type abort struct {
	kind AbortKind
	msg  string
}

func (a abort) String() string { return a.kind.String() + ": " + a.msg }

func unsupported(format string, args ...interface{}) {
	panic(abort{AbortUnsupported, fmt.Sprintf(format, args...)})
}

func kindBits(k types.BasicKind) (bits int, signed bool) {
	switch k {
	case types.Bool:
		return 0, false
	case types.Int, types.Int64:
		return 64, true
	case types.Int8:
		return 8, true
	case types.Int16:
		return 16, true
	case types.Int32:
		return 32, true
	case types.Uint, types.Uint64, types.Uintptr:
		return 64, false
	case types.Uint8:
		return 8, false
	case types.Uint16:
		return 16, false
	case types.Uint32:
		return 32, false
	case types.Float64:
		return 64, false
	}
	panic(fmt.Sprintf("kindBits: unsupported kind %v", k))
}

func kindOf(x value) types.BasicKind {
	switch x := x.(type) {
	case *sym:
		return x.k
	case bool:
		return types.Bool
	case int:
		return types.Int
	case int8:
		return types.Int8
	case int16:
		return types.Int16
	case int32:
		return types.Int32
	case int64:
		return types.Int64
	case uint:
		return types.Uint
	case uint8:
		return types.Uint8
	case uint16:
		return types.Uint16
	case uint32:
		return types.Uint32
	case uint64:
		return types.Uint64
	case uintptr:
		return types.Uintptr
	case float64:
		return types.Float64
	}
	panic(abort{AbortUnsupported, fmt.Sprintf("kindOf: %T in symbolic operation", x)})
}

// term lifts a concrete or symbolic scalar to a term.
func (ps *PathState) term(x value) *smt.Term {
	switch x := x.(type) {
	case *sym:
		return x.t
	case bool:
		return ps.ctx.Bool(x)
	case float64:
		return ps.ctx.Const(smt.BV(64), math.Float64bits(x))
	}
	k := kindOf(x)
	bits, _ := kindBits(k)
	return ps.ctx.Const(smt.BV(bits), uint64(asInt64(x)))
}

// mkval wraps a term as a value of kind k, concretising constants.
func (ps *PathState) mkval(t *smt.Term, k types.BasicKind) value {
	if t.IsConst() {
		return concreteOf(t.Val, k)
	}
	return &sym{t: t, k: k, ps: ps}
}

func concreteOf(v uint64, k types.BasicKind) value {
	switch k {
	case types.Bool:
		return v != 0
	case types.Int:
		return int(int64(v))
	case types.Int8:
		return int8(v)
	case types.Int16:
		return int16(v)
	case types.Int32:
		return int32(v)
	case types.Int64:
		return int64(v)
	case types.Uint:
		return uint(v)
	case types.Uint8:
		return uint8(v)
	case types.Uint16:
		return uint16(v)
	case types.Uint32:
		return uint32(v)
	case types.Uint64:
		return v
	case types.Uintptr:
		return uintptr(v)
	case types.Float64:
		return math.Float64frombits(v)
	}
	panic("concreteOf: kind")
}

func psOf(xs ...value) *PathState {
	for _, x := range xs {
		switch x := x.(type) {
		case *sym:
			return x.ps
		case symStr:
			for _, b := range x.b {
				if s, ok := b.(*sym); ok {
					return s.ps
				}
			}
		}
	}
	return nil
}

func isSymScalar(x value) bool { _, ok := x.(*sym); return ok }

// mkStr normalises a byte vector to string (all concrete) or symStr.
func mkStr(b []value) value {
	conc := true
	for _, e := range b {
		if _, ok := e.(uint8); !ok {
			conc = false
			break
		}
	}
	if conc {
		bs := make([]byte, len(b))
		for i, e := range b {
			bs[i] = e.(uint8)
		}
		return string(bs)
	}
	cp := make([]value, len(b))
	copy(cp, b)
	return symStr{cp}
}

// strBytes returns the byte values of a string value (string or symStr).
func strBytes(x value) []value {
	switch x := x.(type) {
	case string:
		r := make([]value, len(x))
		for i := 0; i < len(x); i++ {
			r[i] = x[i]
		}
		return r
	case symStr:
		return x.b
	}
	panic(fmt.Sprintf("strBytes: %T", x))
}

func isStr(x value) bool {
	switch x.(type) {
	case string, symStr:
		return true
	}
	return false
}

func strLen(x value) int {
	switch x := x.(type) {
	case string:
		return len(x)
	case symStr:
		return len(x.b)
	}
	panic("strLen")
}

// ---- symbolic operators ----

func (ps *PathState) byteEq(a, b value) *smt.Term {
	return ps.ctx.Eq(ps.term(a), ps.term(b))
}

// bytesEqTerm: equality of two byte vectors (concrete lengths).
func (ps *PathState) bytesEqTerm(a, b []value) *smt.Term {
	if len(a) != len(b) {
		return ps.ctx.False()
	}
	r := ps.ctx.True()
	for i := range a {
		r = ps.ctx.And(r, ps.byteEq(a[i], b[i]))
	}
	return r
}

// bytesLessTerm: lexicographic a < b.
func (ps *PathState) bytesLessTerm(a, b []value) *smt.Term {
	c := ps.ctx
	// from the end: less_i = a[i]<b[i] || (a[i]==b[i] && less_{i+1})
	n := len(a)
	if len(b) < n {
		n = len(b)
	}
	r := c.Bool(len(a) < len(b))
	for i := n - 1; i >= 0; i-- {
		ai, bi := ps.term(a[i]), ps.term(b[i])
		r = c.Or(c.Cmp(smt.OpULt, ai, bi), c.And(c.Eq(ai, bi), r))
	}
	return r
}

// bytesCompareTerm returns an int-valued (64-bit) term -1/0/+1.
func (ps *PathState) bytesCompareTerm(a, b []value) *smt.Term {
	c := ps.ctx
	lt := ps.bytesLessTerm(a, b)
	eq := ps.bytesEqTerm(a, b)
	return c.Ite(lt, c.Const(smt.BV(64), ^uint64(0)), c.Ite(eq, c.Const(smt.BV(64), 0), c.Const(smt.BV(64), 1)))
}

func symStrBinop(op token.Token, x, y value) value {
	ps := psOf(x, y)
	a, b := strBytes(x), strBytes(y)
	c := ps.ctx
	switch op {
	case token.ADD:
		r := make([]value, 0, len(a)+len(b))
		r = append(r, a...)
		r = append(r, b...)
		return mkStr(r)
	case token.EQL:
		return ps.mkval(ps.bytesEqTerm(a, b), types.Bool)
	case token.NEQ:
		return ps.mkval(c.Not(ps.bytesEqTerm(a, b)), types.Bool)
	case token.LSS:
		return ps.mkval(ps.bytesLessTerm(a, b), types.Bool)
	case token.GTR:
		return ps.mkval(ps.bytesLessTerm(b, a), types.Bool)
	case token.LEQ:
		return ps.mkval(c.Not(ps.bytesLessTerm(b, a)), types.Bool)
	case token.GEQ:
		return ps.mkval(c.Not(ps.bytesLessTerm(a, b)), types.Bool)
	}
	panic(abort{AbortUnsupported, "string op " + op.String()})
}

// symBinop implements binary operators when at least one operand is *sym.
func symBinop(op token.Token, x, y value) value {
	ps := psOf(x, y)
	c := ps.ctx
	k := kindOf(x)
	if op == token.SHL || op == token.SHR {
		return symShift(ps, op, x, y)
	}
	ky := kindOf(y)
	if k != ky {
		// operands of binary ops have identical types except shifts
		panic(abort{AbortUnsupported, fmt.Sprintf("symBinop kind mismatch %v %v (%s)", k, ky, op)})
	}
	a, b := ps.term(x), ps.term(y)
	if k == types.Bool {
		switch op {
		case token.EQL:
			return ps.mkval(c.Eq(a, b), types.Bool)
		case token.NEQ:
			return ps.mkval(c.Not(c.Eq(a, b)), types.Bool)
		case token.AND, token.LAND:
			return ps.mkval(c.And(a, b), types.Bool)
		case token.OR, token.LOR:
			return ps.mkval(c.Or(a, b), types.Bool)
		}
		panic(abort{AbortUnsupported, "bool op " + op.String()})
	}
	if k == types.Float64 {
		switch op {
		case token.EQL:
			return ps.mkval(c.FCmp(smt.OpFEq, a, b), types.Bool)
		case token.NEQ:
			return ps.mkval(c.Not(c.FCmp(smt.OpFEq, a, b)), types.Bool)
		case token.LSS:
			return ps.mkval(c.FCmp(smt.OpFLt, a, b), types.Bool)
		case token.LEQ:
			return ps.mkval(c.FCmp(smt.OpFLe, a, b), types.Bool)
		case token.GTR:
			return ps.mkval(c.FCmp(smt.OpFLt, b, a), types.Bool)
		case token.GEQ:
			return ps.mkval(c.FCmp(smt.OpFLe, b, a), types.Bool)
		case token.ADD:
			return ps.mkval(c.FArith(0, a, b), k)
		case token.SUB:
			return ps.mkval(c.FArith(1, a, b), k)
		case token.MUL:
			return ps.mkval(c.FArith(2, a, b), k)
		case token.QUO:
			return ps.mkval(c.FArith(3, a, b), k)
		}
		panic(abort{AbortUnsupported, "float op " + op.String()})
	}
	_, signed := kindBits(k)
	switch op {
	case token.ADD:
		return ps.mkval(c.Bin(smt.OpAdd, a, b), k)
	case token.SUB:
		return ps.mkval(c.Bin(smt.OpSub, a, b), k)
	case token.MUL:
		return ps.mkval(c.Bin(smt.OpMul, a, b), k)
	case token.QUO, token.REM:
		// Go panics on division by zero: a real branch.
		zero := c.Eq(b, c.Const(b.Sort, 0))
		if ps.Decide(zero) {
			panic(runtimeErrorString("integer divide by zero"))
		}
		var o smt.Op
		switch {
		case op == token.QUO && signed:
			o = smt.OpSDiv
		case op == token.QUO:
			o = smt.OpUDiv
		case signed:
			o = smt.OpSRem
		default:
			o = smt.OpURem
		}
		return ps.mkval(c.Bin(o, a, b), k)
	case token.AND:
		return ps.mkval(c.Bin(smt.OpBAnd, a, b), k)
	case token.OR:
		return ps.mkval(c.Bin(smt.OpBOr, a, b), k)
	case token.XOR:
		return ps.mkval(c.Bin(smt.OpBXor, a, b), k)
	case token.AND_NOT:
		return ps.mkval(c.Bin(smt.OpBAnd, a, c.BNot(b)), k)
	case token.EQL:
		return ps.mkval(c.Eq(a, b), types.Bool)
	case token.NEQ:
		return ps.mkval(c.Not(c.Eq(a, b)), types.Bool)
	case token.LSS:
		return ps.mkval(c.Cmp(pick(signed, smt.OpSLt, smt.OpULt), a, b), types.Bool)
	case token.LEQ:
		return ps.mkval(c.Cmp(pick(signed, smt.OpSLe, smt.OpULe), a, b), types.Bool)
	case token.GTR:
		return ps.mkval(c.Cmp(pick(signed, smt.OpSLt, smt.OpULt), b, a), types.Bool)
	case token.GEQ:
		return ps.mkval(c.Cmp(pick(signed, smt.OpSLe, smt.OpULe), b, a), types.Bool)
	}
	panic(abort{AbortUnsupported, "int op " + op.String()})
}

func pick(c bool, a, b smt.Op) smt.Op {
	if c {
		return a
	}
	return b
}

type runtimeErrorString string

func (e runtimeErrorString) Error() string { return "runtime error: " + string(e) }
func (e runtimeErrorString) RuntimeError() {}

func symShift(ps *PathState, op token.Token, x, y value) value {
	c := ps.ctx
	k := kindOf(x)
	bits, signed := kindBits(k)
	a := ps.term(x)
	// shift count: any integer kind; negative count panics
	ky := kindOf(y)
	yb, ysigned := kindBits(ky)
	yt := ps.term(y)
	if ysigned {
		neg := c.Cmp(smt.OpSLt, yt, c.Const(yt.Sort, 0))
		if ps.Decide(neg) {
			panic(runtimeErrorString("negative shift amount"))
		}
	}
	// bring count to operand width, saturating
	var cnt *smt.Term
	if yb > bits {
		big := c.Cmp(smt.OpULe, c.Const(yt.Sort, uint64(bits)), yt)
		cnt = c.Ite(big, c.Const(smt.BV(bits), uint64(bits)), c.Extract(yt, bits-1, 0))
	} else {
		cnt = c.ZExt(yt, bits)
	}
	if op == token.SHL {
		return ps.mkval(c.Bin(smt.OpShl, a, cnt), k)
	}
	if signed {
		return ps.mkval(c.Bin(smt.OpAShr, a, cnt), k)
	}
	return ps.mkval(c.Bin(smt.OpLShr, a, cnt), k)
}

func symUnop(op token.Token, x *sym) value {
	ps := x.ps
	c := ps.ctx
	switch op {
	case token.NOT:
		return ps.mkval(c.Not(x.t), types.Bool)
	case token.SUB:
		if x.k == types.Float64 {
			return ps.mkval(c.Bin(smt.OpBXor, x.t, c.Const(smt.BV(64), 1<<63)), x.k)
		}
		return ps.mkval(c.Neg(x.t), x.k)
	case token.XOR:
		return ps.mkval(c.BNot(x.t), x.k)
	}
	panic(abort{AbortUnsupported, "unary op " + op.String()})
}

// symConv converts a symbolic scalar between basic kinds.
func symConv(dst types.BasicKind, x *sym) value {
	ps := x.ps
	c := ps.ctx
	if x.k == types.Bool || dst == types.Bool {
		if x.k == dst {
			return x
		}
		panic(abort{AbortUnsupported, "conversion involving bool"})
	}
	if dst == types.String {
		panic(abort{AbortUnsupported, "string(symbolic integer)"})
	}
	if dst == types.Float32 || dst == types.Complex64 || dst == types.Complex128 {
		panic(abort{AbortUnsupported, "conversion to float32/complex of a symbolic value"})
	}
	sb, ss := kindBits(x.k)
	if x.k == types.Float64 {
		if dst == types.Float64 {
			return x
		}
		panic(abort{AbortUnsupported, "float64 -> integer conversion of a symbolic value"})
	}
	if dst == types.Float64 {
		return ps.mkval(c.I2F(x.t, ss), types.Float64)
	}
	db, _ := kindBits(dst)
	var t *smt.Term
	switch {
	case db == sb:
		t = x.t
	case db < sb:
		t = c.Extract(x.t, db-1, 0)
	case ss:
		t = c.SExt(x.t, db)
	default:
		t = c.ZExt(x.t, db)
	}
	return ps.mkval(t, dst)
}

// deepEq is the symbolic-aware version of equals/eqnil: returns bool or *sym.
func deepEq(t types.Type, x, y value) value {
	ps := psOf(x, y)
	switch x := x.(type) {
	case *sym:
		return symBinop(token.EQL, x, y)
	case symStr:
		return symStrBinop(token.EQL, x, y)
	case string:
		if _, ok := y.(symStr); ok {
			return symStrBinop(token.EQL, x, y)
		}
	case structure:
		ys := y.(structure)
		tStruct := t.Underlying().(*types.Struct)
		var acc value = true
		for i := range x {
			f := tStruct.Field(i)
			if f.Name() == "_" {
				continue
			}
			acc = andVal(acc, deepEq(f.Type(), x[i], ys[i]))
			if b, ok := acc.(bool); ok && !b {
				return false
			}
		}
		return acc
	case array:
		ya := y.(array)
		tElt := t.Underlying().(*types.Array).Elem()
		var acc value = true
		for i := range x {
			acc = andVal(acc, deepEq(tElt, x[i], ya[i]))
			if b, ok := acc.(bool); ok && !b {
				return false
			}
		}
		return acc
	case iface:
		yi := y.(iface)
		if !sameType(x.t, yi.t) {
			return false
		}
		if x.t == nil {
			return true
		}
		return deepEq(x.t, x.v, yi.v)
	}
	if _, ok := y.(*sym); ok {
		return symBinop(token.EQL, x, y)
	}
	_ = ps
	return eqnil(t, x, y)
}

func andVal(a, b value) value {
	if ab, ok := a.(bool); ok {
		if !ab {
			return false
		}
		return b
	}
	if bb, ok := b.(bool); ok {
		if !bb {
			return false
		}
		return a
	}
	ps := psOf(a, b)
	return ps.mkval(ps.ctx.And(ps.term(a), ps.term(b)), types.Bool)
}

func notVal(a value) value {
	if ab, ok := a.(bool); ok {
		return !ab
	}
	s := a.(*sym)
	return s.ps.mkval(s.ps.ctx.Not(s.t), types.Bool)
}

// containsSym reports whether a (shallow-ish) value contains symbolic parts.
func containsSym(x value) bool {
	switch x := x.(type) {
	case *sym, symStr:
		return true
	case structure:
		for _, e := range x {
			if containsSym(e) {
				return true
			}
		}
	case array:
		for _, e := range x {
			if containsSym(e) {
				return true
			}
		}
	case iface:
		return containsSym(x.v)
	}
	return false
}

// concretizeIndex turns an index value into a concrete int64, forking over
// the feasible values in [0, n) and taking the out-of-range side as a Go panic.
func concretizeIndex(idx value, n int, what string) int64 {
	s, ok := idx.(*sym)
	if !ok {
		return asInt64(idx)
	}
	v, ok := s.ps.Concretize(s, 0, int64(n)-1)
	if !ok {
		panic(runtimeErrorString(fmt.Sprintf("index out of range (symbolic %s, len %d)", what, n)))
	}
	return v
}
