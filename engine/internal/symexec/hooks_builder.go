package interp

// strings.Builder uses unsafe.String/abi.NoEscape; its methods are given their
// plain meaning over the buf field (field 1 of the struct).

func init() {
	extraHooks = append(extraHooks, func(p *Program) {
		h := p.hooks
		buf := func(args []value) *value {
			cell := args[0].(*value)
			st := (*cell).(structure)
			return &st[1]
		}
		get := func(args []value) []value {
			b, _ := (*buf(args)).([]value)
			return b
		}
		h["(*strings.Builder).String"] = func(fr *frame, args []value) value { return mkStr(get(args)) }
		h["(*strings.Builder).Len"] = func(fr *frame, args []value) value { return len(get(args)) }
		h["(*strings.Builder).Cap"] = func(fr *frame, args []value) value { return cap(get(args)) }
		h["(*strings.Builder).Reset"] = func(fr *frame, args []value) value { *buf(args) = []value(nil); return nil }
		h["(*strings.Builder).Grow"] = func(fr *frame, args []value) value { return nil }
		h["(*strings.Builder).WriteString"] = func(fr *frame, args []value) value {
			s := strBytes(args[1])
			*buf(args) = append(get(args), s...)
			return tuple{len(s), iface{}}
		}
		h["(*strings.Builder).Write"] = func(fr *frame, args []value) value {
			s := args[1].([]value)
			*buf(args) = append(get(args), s...)
			return tuple{len(s), iface{}}
		}
		h["(*strings.Builder).WriteByte"] = func(fr *frame, args []value) value {
			*buf(args) = append(get(args), args[1])
			return iface{}
		}
		h["(*strings.Builder).WriteRune"] = func(fr *frame, args []value) value {
			r, ok := args[1].(int32)
			if !ok {
				panic(abort{AbortUnsupported, "strings.Builder.WriteRune of a symbolic rune"})
			}
			bs := []byte(string(r))
			b := get(args)
			for _, c := range bs {
				b = append(b, c)
			}
			*buf(args) = b
			return tuple{len(bs), iface{}}
		}
	})
}
