package smt

import (
	"bufio"
	"fmt"
	"io"
	"os/exec"
	"strconv"
	"strings"
	"time"
)

type Result int

const (
	Unknown Result = iota
	Sat
	Unsat
)

func (r Result) String() string { return [...]string{"unknown", "sat", "unsat"}[r] }

// Solver is a long-lived SMT solver process driven over stdin/stdout.
// It tracks which terms / variables have been defined in which push scope,
// and keeps a transcript of the live scopes so that any query can be dumped
// as a standalone script (for cross-checking with another solver).
type Solver struct {
	Kind      string // "z3", "z3-new", "cvc5"
	cmd       *exec.Cmd
	in        io.WriteCloser
	out       *bufio.Reader
	scopes    []*scope
	Queries   int
	NSat      int
	NUnsat    int
	NUnk      int
	Time      time.Duration
	TimeoutMs int
	dead      bool
}

type scope struct {
	defined map[int]bool
	vars    map[string]bool
	lines   []string
}

func argv(kind string, timeoutMs int) []string {
	switch kind {
	case "z3":
		return []string{"/usr/bin/z3", "-in", "-smt2", fmt.Sprintf("-t:%d", timeoutMs)}
	case "z3-new":
		return []string{"z3-new", "-in", "-smt2", fmt.Sprintf("-t:%d", timeoutMs)}
	case "cvc5":
		return []string{"cvc5", "--incremental", "--lang=smt2", "--produce-models", fmt.Sprintf("--tlimit-per=%d", timeoutMs)}
	}
	panic("unknown solver kind " + kind)
}

func NewSolver(kind string, timeoutMs int) (*Solver, error) {
	a := argv(kind, timeoutMs)
	cmd := exec.Command(a[0], a[1:]...)
	in, err := cmd.StdinPipe()
	if err != nil {
		return nil, err
	}
	out, err := cmd.StdoutPipe()
	if err != nil {
		return nil, err
	}
	cmd.Stderr = cmd.Stdout
	if err := cmd.Start(); err != nil {
		return nil, err
	}
	s := &Solver{Kind: kind, cmd: cmd, in: in, out: bufio.NewReaderSize(out, 1<<16), TimeoutMs: timeoutMs}
	s.scopes = []*scope{newScope()}
	s.raw("(set-option :produce-models true)")
	if kind == "cvc5" {
		s.raw("(set-logic ALL)")
	}
	return s, nil
}

func newScope() *scope {
	return &scope{defined: map[int]bool{}, vars: map[string]bool{}}
}

func (s *Solver) Dead() bool { return s.dead }

func (s *Solver) Close() {
	if s.cmd != nil && s.cmd.Process != nil {
		s.in.Close()
		s.cmd.Process.Kill()
		s.cmd.Wait()
	}
	s.dead = true
}

func (s *Solver) raw(line string) {
	io.WriteString(s.in, line)
	io.WriteString(s.in, "\n")
}

func (s *Solver) emit(line string) {
	sc := s.scopes[len(s.scopes)-1]
	sc.lines = append(sc.lines, line)
	s.raw(line)
}

func (s *Solver) Push() {
	s.raw("(push 1)")
	s.scopes = append(s.scopes, newScope())
}

func (s *Solver) Pop() {
	if len(s.scopes) <= 1 {
		panic("smt: pop of base scope")
	}
	s.raw("(pop 1)")
	s.scopes = s.scopes[:len(s.scopes)-1]
}

// Reset drops everything (all scopes).
func (s *Solver) Reset() {
	for len(s.scopes) > 1 {
		s.Pop()
	}
	s.raw("(reset)")
	s.scopes = []*scope{newScope()}
	s.raw("(set-option :produce-models true)")
	if s.Kind == "cvc5" {
		s.raw("(set-logic ALL)")
	}
}

func (s *Solver) isDefined(id int) bool {
	for _, sc := range s.scopes {
		if sc.defined[id] {
			return true
		}
	}
	return false
}

func (s *Solver) varDeclared(n string) bool {
	for _, sc := range s.scopes {
		if sc.vars[n] {
			return true
		}
	}
	return false
}

func quote(n string) string { return "|" + n + "|" }

func bvLit(bits int, v uint64) string {
	if bits%4 == 0 {
		return fmt.Sprintf("#x%0*x", bits/4, v)
	}
	return fmt.Sprintf("#b%0*b", bits, v)
}

const toFP = "((_ to_fp 11 53) "

// ref returns the SMT-LIB text referring to t, defining it first if needed.
func (s *Solver) ref(t *Term) string {
	switch t.Op {
	case OpConst:
		if t.Sort.Bits == 0 {
			if t.Val != 0 {
				return "true"
			}
			return "false"
		}
		return bvLit(t.Sort.Bits, t.Val)
	case OpVar:
		if !s.varDeclared(t.Name) {
			s.scopes[len(s.scopes)-1].vars[t.Name] = true
			s.emit(fmt.Sprintf("(declare-const %s %s)", quote(t.Name), t.Sort))
		}
		return quote(t.Name)
	}
	name := "t" + strconv.Itoa(t.id)
	if s.isDefined(t.id) {
		return name
	}
	args := make([]string, len(t.Args))
	for i, a := range t.Args {
		args[i] = s.ref(a)
	}
	var body string
	bin := func(op string) string { return "(" + op + " " + args[0] + " " + args[1] + ")" }
	switch t.Op {
	case OpNot:
		body = "(not " + args[0] + ")"
	case OpAnd:
		body = bin("and")
	case OpOr:
		body = bin("or")
	case OpIte:
		body = "(ite " + args[0] + " " + args[1] + " " + args[2] + ")"
	case OpEq:
		body = bin("=")
	case OpAdd:
		body = bin("bvadd")
	case OpSub:
		body = bin("bvsub")
	case OpMul:
		body = bin("bvmul")
	case OpUDiv:
		body = bin("bvudiv")
	case OpURem:
		body = bin("bvurem")
	case OpSDiv:
		body = bin("bvsdiv")
	case OpSRem:
		body = bin("bvsrem")
	case OpBAnd:
		body = bin("bvand")
	case OpBOr:
		body = bin("bvor")
	case OpBXor:
		body = bin("bvxor")
	case OpBNot:
		body = "(bvnot " + args[0] + ")"
	case OpNeg:
		body = "(bvneg " + args[0] + ")"
	case OpShl:
		body = bin("bvshl")
	case OpLShr:
		body = bin("bvlshr")
	case OpAShr:
		body = bin("bvashr")
	case OpULt:
		body = bin("bvult")
	case OpULe:
		body = bin("bvule")
	case OpSLt:
		body = bin("bvslt")
	case OpSLe:
		body = bin("bvsle")
	case OpExtract:
		body = fmt.Sprintf("((_ extract %d %d) %s)", t.P0, t.P1, args[0])
	case OpZExt:
		body = fmt.Sprintf("((_ zero_extend %d) %s)", t.P0, args[0])
	case OpSExt:
		body = fmt.Sprintf("((_ sign_extend %d) %s)", t.P0, args[0])
	case OpConcat:
		body = bin("concat")
	case OpFLt:
		body = "(fp.lt " + toFP + args[0] + ") " + toFP + args[1] + "))"
	case OpFLe:
		body = "(fp.leq " + toFP + args[0] + ") " + toFP + args[1] + "))"
	case OpFEq:
		body = "(fp.eq " + toFP + args[0] + ") " + toFP + args[1] + "))"
	case OpFIsNaN:
		body = "(fp.isNaN " + toFP + args[0] + "))"
	case OpI2F, OpU2F, OpFArith:
		// side variable: bits of the FP result
		s.scopes[len(s.scopes)-1].defined[t.id] = true
		s.emit(fmt.Sprintf("(declare-const %s (_ BitVec 64))", name))
		var fp string
		switch t.Op {
		case OpI2F:
			fp = "((_ to_fp 11 53) RNE " + args[0] + ")"
		case OpU2F:
			fp = "((_ to_fp_unsigned 11 53) RNE " + args[0] + ")"
		default:
			op := [...]string{"fp.add", "fp.sub", "fp.mul", "fp.div"}[t.P0]
			fp = "(" + op + " RNE " + toFP + args[0] + ") " + toFP + args[1] + "))"
		}
		s.emit("(assert (= " + toFP + name + ") " + fp + "))")
		return name
	default:
		panic(fmt.Sprintf("smt: cannot print op %d", t.Op))
	}
	s.scopes[len(s.scopes)-1].defined[t.id] = true
	s.emit(fmt.Sprintf("(define-fun %s () %s %s)", name, t.Sort, body))
	return name
}

func (s *Solver) Assert(t *Term) {
	r := s.ref(t)
	s.emit("(assert " + r + ")")
}

// Script returns a standalone SMT-LIB2 script equivalent to the live scopes.
func (s *Solver) Script() string {
	var sb strings.Builder
	for _, sc := range s.scopes {
		for _, l := range sc.lines {
			sb.WriteString(l)
			sb.WriteByte('\n')
		}
	}
	sb.WriteString("(check-sat)\n")
	return sb.String()
}

func (s *Solver) readLine() (string, error) {
	type res struct {
		l   string
		err error
	}
	ch := make(chan res, 1)
	go func() {
		l, err := s.out.ReadString('\n')
		ch <- res{l, err}
	}()
	select {
	case r := <-ch:
		return strings.TrimSpace(r.l), r.err
	case <-time.After(time.Duration(s.TimeoutMs)*time.Millisecond + 30*time.Second):
		s.dead = true
		s.cmd.Process.Kill()
		return "", fmt.Errorf("solver %s: hard timeout", s.Kind)
	}
}

// Check runs check-sat. Any error line makes the answer Unknown with err set.
func (s *Solver) Check() (Result, error) {
	if s.dead {
		return Unknown, fmt.Errorf("solver dead")
	}
	t0 := time.Now()
	s.raw("(check-sat)")
	s.Queries++
	defer func() { s.Time += time.Since(t0) }()
	for {
		l, err := s.readLine()
		if err != nil {
			s.NUnk++
			return Unknown, err
		}
		switch {
		case l == "sat":
			s.NSat++
			return Sat, nil
		case l == "unsat":
			s.NUnsat++
			return Unsat, nil
		case l == "unknown" || l == "timeout":
			s.NUnk++
			return Unknown, nil
		case l == "":
			continue
		case strings.Contains(l, "error"):
			s.NUnk++
			// drain until we can resync: ask for an echo marker
			return Unknown, fmt.Errorf("solver %s: %s", s.Kind, l)
		default:
			// warnings etc.: skip
			continue
		}
	}
}

// readSexp reads one balanced s-expression from the solver.
func (s *Solver) readSexp() (string, error) {
	var sb strings.Builder
	depth := 0
	started := false
	inBar := false
	for {
		l, err := s.readLine()
		if err != nil {
			return "", err
		}
		for _, ch := range l {
			if ch == '|' {
				inBar = !inBar
			}
			if inBar {
				continue
			}
			if ch == '(' {
				depth++
				started = true
			} else if ch == ')' {
				depth--
			}
		}
		sb.WriteString(l)
		sb.WriteByte(' ')
		if started && depth <= 0 {
			return sb.String(), nil
		}
		if !started && strings.TrimSpace(l) != "" {
			return sb.String(), nil
		}
	}
}

// Values fetches the model values of the given variables (after a Sat).
func (s *Solver) Values(vars []*Term) (map[string]uint64, error) {
	res := map[string]uint64{}
	if len(vars) == 0 {
		return res, nil
	}
	var sb strings.Builder
	sb.WriteString("(get-value (")
	for _, v := range vars {
		sb.WriteString(s.ref(v))
		sb.WriteByte(' ')
	}
	sb.WriteString("))")
	s.raw(sb.String())
	txt, err := s.readSexp()
	if err != nil {
		return nil, err
	}
	if strings.Contains(txt, "(error") {
		return nil, fmt.Errorf("solver %s get-value: %s", s.Kind, txt)
	}
	// parse ((|name| value) ...)
	i := 0
	n := len(txt)
	for i < n {
		j := strings.IndexByte(txt[i:], '|')
		if j < 0 {
			break
		}
		i += j + 1
		k := strings.IndexByte(txt[i:], '|')
		if k < 0 {
			break
		}
		name := txt[i : i+k]
		i += k + 1
		for i < n && (txt[i] == ' ' || txt[i] == '\t') {
			i++
		}
		e := i
		for e < n && txt[e] != ')' && txt[e] != ' ' {
			e++
		}
		tok := txt[i:e]
		i = e
		var v uint64
		switch {
		case tok == "true":
			v = 1
		case tok == "false":
			v = 0
		case strings.HasPrefix(tok, "#x"):
			v, err = strconv.ParseUint(tok[2:], 16, 64)
		case strings.HasPrefix(tok, "#b"):
			v, err = strconv.ParseUint(tok[2:], 2, 64)
		case strings.HasPrefix(tok, "(_"):
			// (_ bv123 64)
			rest := txt[e:]
			_ = rest
			f := strings.Fields(txt[i-len(tok) : i+40])
			if len(f) >= 2 && strings.HasPrefix(f[1], "bv") {
				v, err = strconv.ParseUint(f[1][2:], 10, 64)
			}
		default:
			err = fmt.Errorf("cannot parse model value %q for %s", tok, name)
		}
		if err != nil {
			return nil, err
		}
		res[name] = v
	}
	return res, nil
}

// OneShot runs a standalone script in a fresh solver process of the given kind.
func OneShot(kind string, script string, timeoutMs int) (Result, error) {
	a := argv(kind, timeoutMs)
	cmd := exec.Command(a[0], a[1:]...)
	pre := "(set-option :produce-models true)\n"
	if kind == "cvc5" {
		pre += "(set-logic ALL)\n"
	}
	cmd.Stdin = strings.NewReader(pre + script)
	done := make(chan struct{})
	var out []byte
	var err error
	go func() {
		out, err = cmd.CombinedOutput()
		close(done)
	}()
	select {
	case <-done:
	case <-time.After(time.Duration(timeoutMs)*time.Millisecond + 30*time.Second):
		if cmd.Process != nil {
			cmd.Process.Kill()
		}
		<-done
		return Unknown, fmt.Errorf("%s: hard timeout", kind)
	}
	txt := string(out)
	if strings.Contains(txt, "error") {
		return Unknown, fmt.Errorf("%s: %s", kind, strings.TrimSpace(txt))
	}
	for _, l := range strings.Split(txt, "\n") {
		switch strings.TrimSpace(l) {
		case "sat":
			return Sat, nil
		case "unsat":
			return Unsat, nil
		case "unknown", "timeout":
			return Unknown, nil
		}
	}
	_ = err
	return Unknown, fmt.Errorf("%s: no answer: %s", kind, strings.TrimSpace(txt))
}
