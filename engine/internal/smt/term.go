// Package smt: hash-consed term DAG over QF_BV + FloatingPoint, SMT-LIB2
// printer, concrete evaluator, and a long-lived solver process wrapper.
package smt

import (
	"fmt"
	"math"
	"math/bits"
	"strings"
)

// Sort: Bits==0 is Bool, otherwise (_ BitVec Bits).
type Sort struct{ Bits int }

var BoolSort = Sort{0}

func BV(n int) Sort { return Sort{n} }

func (s Sort) String() string {
	if s.Bits == 0 {
		return "Bool"
	}
	return fmt.Sprintf("(_ BitVec %d)", s.Bits)
}

type Op int

const (
	OpConst Op = iota
	OpVar
	OpNot
	OpAnd
	OpOr
	OpIte
	OpEq
	OpAdd
	OpSub
	OpMul
	OpUDiv
	OpURem
	OpSDiv
	OpSRem
	OpBAnd
	OpBOr
	OpBXor
	OpBNot
	OpNeg
	OpShl
	OpLShr
	OpAShr
	OpULt
	OpULe
	OpSLt
	OpSLe
	OpExtract // P0=hi P1=lo
	OpZExt    // P0=extra bits
	OpSExt    // P0=extra bits
	OpConcat
	// floating point over IEEE-754 binary64 bit patterns (args are BV64)
	OpFLt    // Bool
	OpFLe    // Bool
	OpFEq    // Bool (IEEE ==)
	OpFIsNaN // Bool
	OpI2F    // signed BV64 -> BV64 bits of float64(x) (RNE); printed via side variable
	OpU2F    // unsigned BV64 -> bits
	OpFArith // P0 = 0 add,1 sub,2 mul,3 div ; args BV64 bits -> BV64 bits (side variable)
)

type Term struct {
	Op     Op
	Sort   Sort
	Args   []*Term
	Val    uint64 // OpConst
	Name   string // OpVar
	P0, P1 int
	id     int
}

func (t *Term) ID() int       { return t.id }
func (t *Term) IsConst() bool { return t.Op == OpConst }
func (t *Term) IsBool() bool  { return t.Sort.Bits == 0 }
func (t *Term) ConstBool() (bool, bool) {
	if t.Op == OpConst && t.Sort.Bits == 0 {
		return t.Val != 0, true
	}
	return false, false
}

// Ctx owns terms (hash-consing) and variable declarations.
type Ctx struct {
	table map[string]*Term
	next  int
	Vars  []*Term // in declaration order
	vmap  map[string]*Term
}

func NewCtx() *Ctx {
	return &Ctx{table: map[string]*Term{}, vmap: map[string]*Term{}}
}

func mask(bitsN int) uint64 {
	if bitsN >= 64 {
		return ^uint64(0)
	}
	return (uint64(1) << uint(bitsN)) - 1
}

func (c *Ctx) mk(t Term) *Term {
	var sb strings.Builder
	fmt.Fprintf(&sb, "%d|%d|%d|%d|%d|%s", t.Op, t.Sort.Bits, t.Val, t.P0, t.P1, t.Name)
	for _, a := range t.Args {
		fmt.Fprintf(&sb, "|%d", a.id)
	}
	k := sb.String()
	if e, ok := c.table[k]; ok {
		return e
	}
	c.next++
	t.id = c.next
	nt := t
	c.table[k] = &nt
	return &nt
}

func (c *Ctx) Const(s Sort, v uint64) *Term {
	if s.Bits == 0 {
		if v != 0 {
			v = 1
		}
	} else {
		v &= mask(s.Bits)
	}
	return c.mk(Term{Op: OpConst, Sort: s, Val: v})
}
func (c *Ctx) True() *Term  { return c.Const(BoolSort, 1) }
func (c *Ctx) False() *Term { return c.Const(BoolSort, 0) }
func (c *Ctx) Bool(b bool) *Term {
	if b {
		return c.True()
	}
	return c.False()
}

// Var declares (or returns) a variable.
func (c *Ctx) Var(name string, s Sort) *Term {
	if v, ok := c.vmap[name]; ok {
		if v.Sort != s {
			panic("smt: variable " + name + " redeclared with another sort")
		}
		return v
	}
	v := c.mk(Term{Op: OpVar, Sort: s, Name: name})
	c.vmap[name] = v
	c.Vars = append(c.Vars, v)
	return v
}

func (c *Ctx) Not(a *Term) *Term {
	if a.Op == OpConst {
		return c.Bool(a.Val == 0)
	}
	if a.Op == OpNot {
		return a.Args[0]
	}
	return c.mk(Term{Op: OpNot, Sort: BoolSort, Args: []*Term{a}})
}

func (c *Ctx) And(a, b *Term) *Term {
	if a.Op == OpConst {
		if a.Val == 0 {
			return a
		}
		return b
	}
	if b.Op == OpConst {
		if b.Val == 0 {
			return b
		}
		return a
	}
	if a == b {
		return a
	}
	return c.mk(Term{Op: OpAnd, Sort: BoolSort, Args: []*Term{a, b}})
}

func (c *Ctx) Or(a, b *Term) *Term {
	if a.Op == OpConst {
		if a.Val != 0 {
			return a
		}
		return b
	}
	if b.Op == OpConst {
		if b.Val != 0 {
			return b
		}
		return a
	}
	if a == b {
		return a
	}
	return c.mk(Term{Op: OpOr, Sort: BoolSort, Args: []*Term{a, b}})
}

func (c *Ctx) Ite(cond, a, b *Term) *Term {
	if cond.Op == OpConst {
		if cond.Val != 0 {
			return a
		}
		return b
	}
	if a == b {
		return a
	}
	if a.Sort.Bits == 0 && a.Op == OpConst && b.Op == OpConst {
		if a.Val != 0 && b.Val == 0 {
			return cond
		}
		if a.Val == 0 && b.Val != 0 {
			return c.Not(cond)
		}
	}
	return c.mk(Term{Op: OpIte, Sort: a.Sort, Args: []*Term{cond, a, b}})
}

func (c *Ctx) Eq(a, b *Term) *Term {
	if a.Sort != b.Sort {
		panic(fmt.Sprintf("smt: Eq sort mismatch %v %v", a.Sort, b.Sort))
	}
	if a == b {
		return c.True()
	}
	if a.Op == OpConst && b.Op == OpConst {
		return c.Bool(a.Val == b.Val)
	}
	if a.Sort.Bits == 0 {
		if a.Op == OpConst {
			if a.Val != 0 {
				return b
			}
			return c.Not(b)
		}
		if b.Op == OpConst {
			if b.Val != 0 {
				return a
			}
			return c.Not(a)
		}
	}
	if a.id > b.id {
		a, b = b, a
	}
	return c.mk(Term{Op: OpEq, Sort: BoolSort, Args: []*Term{a, b}})
}

func sext(v uint64, n int) int64 {
	if n >= 64 {
		return int64(v)
	}
	sh := uint(64 - n)
	return int64(v<<sh) >> sh
}

// foldBin evaluates a binary BV operator on constants.
func foldBin(op Op, n int, x, y uint64) (uint64, bool) {
	m := mask(n)
	switch op {
	case OpAdd:
		return (x + y) & m, true
	case OpSub:
		return (x - y) & m, true
	case OpMul:
		return (x * y) & m, true
	case OpUDiv:
		if y == 0 {
			return m, true
		}
		return x / y, true
	case OpURem:
		if y == 0 {
			return x, true
		}
		return x % y, true
	case OpSDiv:
		sx, sy := sext(x, n), sext(y, n)
		if sy == 0 {
			if sx >= 0 {
				return m, true
			}
			return 1, true
		}
		if sy == -1 {
			return uint64(-sx) & m, true
		}
		return uint64(sx/sy) & m, true
	case OpSRem:
		sx, sy := sext(x, n), sext(y, n)
		if sy == 0 {
			return x, true
		}
		if sy == -1 {
			return 0, true
		}
		return uint64(sx%sy) & m, true
	case OpBAnd:
		return x & y, true
	case OpBOr:
		return x | y, true
	case OpBXor:
		return x ^ y, true
	case OpShl:
		if y >= uint64(n) {
			return 0, true
		}
		return (x << y) & m, true
	case OpLShr:
		if y >= uint64(n) {
			return 0, true
		}
		return x >> y, true
	case OpAShr:
		sx := sext(x, n)
		if y >= uint64(n) {
			y = uint64(n - 1)
		}
		return uint64(sx>>y) & m, true
	}
	return 0, false
}

func foldCmp(op Op, n int, x, y uint64) bool {
	switch op {
	case OpULt:
		return x < y
	case OpULe:
		return x <= y
	case OpSLt:
		return sext(x, n) < sext(y, n)
	case OpSLe:
		return sext(x, n) <= sext(y, n)
	}
	panic("foldCmp")
}

// Bin builds a BV binary operation (both operands same width).
func (c *Ctx) Bin(op Op, a, b *Term) *Term {
	if a.Sort != b.Sort || a.Sort.Bits == 0 {
		panic(fmt.Sprintf("smt: Bin sort mismatch op=%d %v %v", op, a.Sort, b.Sort))
	}
	n := a.Sort.Bits
	if a.Op == OpConst && b.Op == OpConst {
		if v, ok := foldBin(op, n, a.Val, b.Val); ok {
			return c.Const(a.Sort, v)
		}
	}
	// light identities
	switch op {
	case OpAdd, OpBOr, OpBXor:
		if a.Op == OpConst && a.Val == 0 {
			return b
		}
		if b.Op == OpConst && b.Val == 0 {
			return a
		}
	case OpSub, OpShl, OpLShr, OpAShr:
		if b.Op == OpConst && b.Val == 0 {
			return a
		}
	case OpBAnd:
		if a.Op == OpConst && a.Val == 0 {
			return a
		}
		if b.Op == OpConst && b.Val == 0 {
			return b
		}
		if a.Op == OpConst && a.Val == mask(n) {
			return b
		}
		if b.Op == OpConst && b.Val == mask(n) {
			return a
		}
	case OpMul:
		if a.Op == OpConst && a.Val == 1 {
			return b
		}
		if b.Op == OpConst && b.Val == 1 {
			return a
		}
	}
	return c.mk(Term{Op: op, Sort: a.Sort, Args: []*Term{a, b}})
}

func (c *Ctx) Cmp(op Op, a, b *Term) *Term {
	if a.Sort != b.Sort || a.Sort.Bits == 0 {
		panic(fmt.Sprintf("smt: Cmp sort mismatch %v %v", a.Sort, b.Sort))
	}
	if a.Op == OpConst && b.Op == OpConst {
		return c.Bool(foldCmp(op, a.Sort.Bits, a.Val, b.Val))
	}
	if a == b {
		return c.Bool(op == OpULe || op == OpSLe)
	}
	return c.mk(Term{Op: op, Sort: BoolSort, Args: []*Term{a, b}})
}

func (c *Ctx) BNot(a *Term) *Term {
	if a.Op == OpConst {
		return c.Const(a.Sort, ^a.Val)
	}
	return c.mk(Term{Op: OpBNot, Sort: a.Sort, Args: []*Term{a}})
}

func (c *Ctx) Neg(a *Term) *Term {
	if a.Op == OpConst {
		return c.Const(a.Sort, -a.Val)
	}
	return c.mk(Term{Op: OpNeg, Sort: a.Sort, Args: []*Term{a}})
}

func (c *Ctx) Extract(a *Term, hi, lo int) *Term {
	if lo == 0 && hi == a.Sort.Bits-1 {
		return a
	}
	if a.Op == OpConst {
		return c.Const(BV(hi-lo+1), a.Val>>uint(lo))
	}
	if (a.Op == OpZExt || a.Op == OpSExt) && hi < a.Args[0].Sort.Bits {
		return c.Extract(a.Args[0], hi, lo)
	}
	return c.mk(Term{Op: OpExtract, Sort: BV(hi - lo + 1), Args: []*Term{a}, P0: hi, P1: lo})
}

func (c *Ctx) ZExt(a *Term, to int) *Term {
	if to == a.Sort.Bits {
		return a
	}
	if to < a.Sort.Bits {
		return c.Extract(a, to-1, 0)
	}
	if a.Op == OpConst {
		return c.Const(BV(to), a.Val)
	}
	return c.mk(Term{Op: OpZExt, Sort: BV(to), Args: []*Term{a}, P0: to - a.Sort.Bits})
}

func (c *Ctx) SExt(a *Term, to int) *Term {
	if to == a.Sort.Bits {
		return a
	}
	if to < a.Sort.Bits {
		return c.Extract(a, to-1, 0)
	}
	if a.Op == OpConst {
		return c.Const(BV(to), uint64(sext(a.Val, a.Sort.Bits)))
	}
	return c.mk(Term{Op: OpSExt, Sort: BV(to), Args: []*Term{a}, P0: to - a.Sort.Bits})
}

func (c *Ctx) Concat(hi, lo *Term) *Term {
	n := hi.Sort.Bits + lo.Sort.Bits
	if n > 64 {
		panic("smt: concat wider than 64")
	}
	if hi.Op == OpConst && lo.Op == OpConst {
		return c.Const(BV(n), hi.Val<<uint(lo.Sort.Bits)|lo.Val)
	}
	return c.mk(Term{Op: OpConcat, Sort: BV(n), Args: []*Term{hi, lo}})
}

// Floating point (binary64 bit patterns).

func (c *Ctx) FCmp(op Op, a, b *Term) *Term {
	if a.Op == OpConst && b.Op == OpConst {
		x, y := math.Float64frombits(a.Val), math.Float64frombits(b.Val)
		switch op {
		case OpFLt:
			return c.Bool(x < y)
		case OpFLe:
			return c.Bool(x <= y)
		case OpFEq:
			return c.Bool(x == y)
		}
	}
	return c.mk(Term{Op: op, Sort: BoolSort, Args: []*Term{a, b}})
}

func (c *Ctx) FIsNaN(a *Term) *Term {
	if a.Op == OpConst {
		x := math.Float64frombits(a.Val)
		return c.Bool(x != x)
	}
	return c.mk(Term{Op: OpFIsNaN, Sort: BoolSort, Args: []*Term{a}})
}

func (c *Ctx) I2F(a *Term, signed bool) *Term {
	if a.Sort.Bits != 64 {
		if signed {
			a = c.SExt(a, 64)
		} else {
			a = c.ZExt(a, 64)
		}
	}
	if a.Op == OpConst {
		if signed {
			return c.Const(BV(64), math.Float64bits(float64(int64(a.Val))))
		}
		return c.Const(BV(64), math.Float64bits(float64(a.Val)))
	}
	op := OpI2F
	if !signed {
		op = OpU2F
	}
	return c.mk(Term{Op: op, Sort: BV(64), Args: []*Term{a}})
}

func (c *Ctx) FArith(kind int, a, b *Term) *Term {
	if a.Op == OpConst && b.Op == OpConst {
		return c.Const(BV(64), math.Float64bits(farith(kind, math.Float64frombits(a.Val), math.Float64frombits(b.Val))))
	}
	return c.mk(Term{Op: OpFArith, Sort: BV(64), Args: []*Term{a, b}, P0: kind})
}

func farith(kind int, x, y float64) float64 {
	switch kind {
	case 0:
		return x + y
	case 1:
		return x - y
	case 2:
		return x * y
	default:
		return x / y
	}
}

// Eval evaluates t under a (total on the variables it needs) assignment.
// Missing variables evaluate to 0.
func Eval(t *Term, m map[string]uint64, memo map[int]uint64) uint64 {
	if v, ok := memo[t.id]; ok {
		return v
	}
	var r uint64
	ev := func(i int) uint64 { return Eval(t.Args[i], m, memo) }
	b2u := func(b bool) uint64 {
		if b {
			return 1
		}
		return 0
	}
	switch t.Op {
	case OpConst:
		r = t.Val
	case OpVar:
		r = m[t.Name]
		if t.Sort.Bits > 0 {
			r &= mask(t.Sort.Bits)
		}
	case OpNot:
		r = 1 - ev(0)
	case OpAnd:
		r = ev(0) & ev(1)
	case OpOr:
		r = ev(0) | ev(1)
	case OpIte:
		if ev(0) != 0 {
			r = ev(1)
		} else {
			r = ev(2)
		}
	case OpEq:
		r = b2u(ev(0) == ev(1))
	case OpAdd, OpSub, OpMul, OpUDiv, OpURem, OpSDiv, OpSRem, OpBAnd, OpBOr, OpBXor, OpShl, OpLShr, OpAShr:
		r, _ = foldBin(t.Op, t.Sort.Bits, ev(0), ev(1))
	case OpBNot:
		r = ^ev(0) & mask(t.Sort.Bits)
	case OpNeg:
		r = -ev(0) & mask(t.Sort.Bits)
	case OpULt, OpULe, OpSLt, OpSLe:
		r = b2u(foldCmp(t.Op, t.Args[0].Sort.Bits, ev(0), ev(1)))
	case OpExtract:
		r = (ev(0) >> uint(t.P1)) & mask(t.P0-t.P1+1)
	case OpZExt:
		r = ev(0)
	case OpSExt:
		r = uint64(sext(ev(0), t.Args[0].Sort.Bits)) & mask(t.Sort.Bits)
	case OpConcat:
		r = ev(0)<<uint(t.Args[1].Sort.Bits) | ev(1)
	case OpFLt:
		r = b2u(math.Float64frombits(ev(0)) < math.Float64frombits(ev(1)))
	case OpFLe:
		r = b2u(math.Float64frombits(ev(0)) <= math.Float64frombits(ev(1)))
	case OpFEq:
		r = b2u(math.Float64frombits(ev(0)) == math.Float64frombits(ev(1)))
	case OpFIsNaN:
		x := math.Float64frombits(ev(0))
		r = b2u(x != x)
	case OpI2F:
		r = math.Float64bits(float64(int64(ev(0))))
	case OpU2F:
		r = math.Float64bits(float64(ev(0)))
	case OpFArith:
		r = math.Float64bits(farith(t.P0, math.Float64frombits(ev(0)), math.Float64frombits(ev(1))))
	default:
		panic("smt.Eval: unknown op")
	}
	memo[t.id] = r
	return r
}

var _ = bits.Len
