package main

import (
	"encoding/json"
	"fmt"
	"go/types"
	"os"
	"path/filepath"
	"sort"
	"strconv"
	"strings"
	"time"

	"golang.org/x/tools/go/ssa"

	interp "verif/engine/internal/symexec"
)

func fnInstrs(f *ssa.Function) int {
	n := 0
	for _, b := range f.Blocks {
		n += len(b.Instrs)
	}
	return n
}

// report replays models natively, prints verdict lines, writes evidence and
// returns the exit code (0 pass, 1 violation, 2 inconclusive).
func (r *runner) report(id string, hs []*harnessRun, t0 time.Time, noReplay bool) int {
	evDir := filepath.Join(verifDir, "evidence")
	if d := os.Getenv("VERIF_EVIDENCE_DIR"); d != "" {
		evDir = d // used when the checks are pointed at a seeded scratch worktree
	}
	rpDir := filepath.Join(evDir, "replay")
	os.MkdirAll(rpDir, 0o755)
	// stale replay files of this property
	if old, _ := filepath.Glob(filepath.Join(rpDir, id+"-*.json")); old != nil {
		for _, f := range old {
			os.Remove(f)
		}
	}

	var violationLines, knownLines, inconclusive []string
	knownPrinted := map[string]bool{}
	replayed := 0
	var samples []interface{}
	totalPaths, totalDecisions, totalDischarged, nontrivial := 0, 0, 0, 0
	stubs := map[string]bool{}
	outside := map[string]int{}
	seq := 0

	if r.cross != nil && len(r.cross.Disagree) > 0 {
		for _, d := range r.cross.Disagree {
			inconclusive = append(inconclusive, "solver disagreement on an assertion query: "+d)
		}
	}
	if r.deadlineHit {
		inconclusive = append(inconclusive, "wall-clock budget exhausted before all paths were explored")
	}
	for _, h := range hs {
		totalPaths += h.paths
		totalDecisions += h.decisions
		totalDischarged += h.discharged
		for k := range h.stubs {
			stubs[k] = true
		}
		for k, v := range h.outside {
			outside[k] += v
		}
		// vacuity: at least one assertion / reach label reached on some path
		nAssertReached := 0
		for k, n := range h.reached {
			if k != "panic" && n > 0 {
				nAssertReached++
			}
		}
		nontrivial += h.outcomes["ok"]
		if nAssertReached == 0 {
			inconclusive = append(inconclusive, fmt.Sprintf("%s: vacuous: no path reached an assertion (outcomes %v)", h.name, h.outcomes))
		}
		if h.unknowns > 0 {
			inconclusive = append(inconclusive, fmt.Sprintf("%s: %d solver unknown/timeouts", h.name, h.unknowns))
		}
		if h.budgetHit {
			inconclusive = append(inconclusive, fmt.Sprintf("%s: path budget %d exhausted", h.name, r.pathCap))
		}
		if n := h.outcomes["solver"]; n > 0 {
			inconclusive = append(inconclusive, fmt.Sprintf("%s: %d paths aborted on solver errors", h.name, n))
		}

		// witness replay: validates the encoding on a passing path
		if h.haveWitness && !noReplay {
			seq++
			f := r.writeReplay(id, h, seq, "witness", "witness", "", h.witness, r.workDir)
			nr := r.runNative(h.pkg, h.name, f)
			replayed++
			if nr.result != "ok" {
				inconclusive = append(inconclusive, fmt.Sprintf("%s: witness model does not pass natively (%s): executor and native code disagree", h.name, nr.result))
				keep := r.writeReplay(id, h, seq, "witness-mismatch", "witness", nr.result, h.witness, rpDir)
				fmt.Fprintf(os.Stderr, "witness mismatch kept at %s\n%s\n", keep, nr.output)
			} else if len(samples) < 6 {
				samples = append(samples, map[string]interface{}{"harness": h.name, "kind": "witness (passing path, replayed natively)", "inputs": compactValues(h.witness)})
			}
		}

		// violations
		for _, v := range h.violations {
			seq++
			label := v.Label
			f := r.writeReplay(id, h, seq, label, v.Kind, v.Msg, v.Values, rpDir)
			if noReplay {
				inconclusive = append(inconclusive, fmt.Sprintf("%s: counterexample for %q not replayed (-noreplay): %s", h.name, label, f))
				continue
			}
			nr := r.runNative(h.pkg, h.name, f)
			replayed++
			if v.Known != "" {
				hit := false
				for _, k := range nr.knownHits {
					if k == v.Known {
						hit = true
					}
				}
				if hit {
					if !knownPrinted[v.Known] {
						knownPrinted[v.Known] = true
						knownLines = append(knownLines, fmt.Sprintf("KNOWN-FINDING: property=%s %s: %s (replay=%s)", id, v.Known, r.knownWhat(v.Known), f))
					}
				} else {
					os.Remove(f)
				}
				continue
			}
			confirmed := false
			switch v.Kind {
			case "assert":
				confirmed = nr.result == "assert-failed "+strings.ReplaceAll(label, "\n", " ")
			case "panic":
				confirmed = strings.HasPrefix(nr.result, "panic") || strings.HasPrefix(nr.result, "crash")
			}
			if confirmed {
				violationLines = append(violationLines, fmt.Sprintf("VIOLATION property=%s replay=%s", id, f))
				fmt.Printf("  violation: harness=%s label=%q %s ; native: %s\n", h.name, label, v.Msg, nr.result)
				if len(samples) < 8 {
					samples = append(samples, map[string]interface{}{"harness": h.name, "kind": "counterexample (replayed natively)", "label": label, "inputs": compactValues(v.Values)})
				}
			} else {
				inconclusive = append(inconclusive, fmt.Sprintf("%s: counterexample for %q did not reproduce natively (native: %s): encoding/stub mismatch, kept at %s; executor said: %s", h.name, label, nr.result, f, firstLine(v.Msg)))
			}
		}

		// unsupported / unwound paths: replay natively; a native failure is a violation
		for _, p := range h.problems {
			if p.values != nil && !noReplay && (p.kind == "unwound") {
				seq++
				f := r.writeReplay(id, h, seq, p.kind, "panic", p.msg, p.values, rpDir)
				nr := r.runNative(h.pkg, h.name, f)
				replayed++
				if strings.HasPrefix(nr.result, "panic") || strings.HasPrefix(nr.result, "crash") || strings.HasPrefix(nr.result, "assert-failed") {
					violationLines = append(violationLines, fmt.Sprintf("VIOLATION property=%s replay=%s", id, f))
					fmt.Printf("  violation: harness=%s executor path %s (%s) ; native: %s\n", h.name, p.kind, firstLine(p.msg), nr.result)
					continue
				}
				os.Remove(f)
			}
			inconclusive = append(inconclusive, fmt.Sprintf("%s: %s path: %s", h.name, p.kind, p.msg))
		}
		if n := h.outcomes["unsupported"] + h.outcomes["unwound"]; n > len(h.problems) {
			inconclusive = append(inconclusive, fmt.Sprintf("%s: %d unsupported/unwound paths in total", h.name, n))
		}
	}

	// functions encoded
	type fe struct {
		Name   string `json:"name"`
		Instrs int    `json:"ssa_instrs"`
		Calls  int    `json:"calls"`
	}
	var fes []fe
	for f, n := range r.covered {
		if f.Pkg != nil && strings.HasPrefix(f.Pkg.Pkg.Path(), repoMod+"/verifrt") {
			continue
		}
		name := f.String()
		if strings.Contains(name, ".Verif") || strings.Contains(name, ".verif") {
			continue
		}
		fes = append(fes, fe{name, fnInstrs(f), n})
	}
	sort.Slice(fes, func(i, j int) bool { return fes[i].Name < fes[j].Name })

	var stubList []string
	for k := range stubs {
		stubList = append(stubList, k)
	}
	sort.Strings(stubList)
	var outsideList []string
	for k, n := range outside {
		outsideList = append(outsideList, fmt.Sprintf("%s (%d paths cut)", k, n))
	}
	sort.Strings(outsideList)

	// C20 speaks of every symbol reference in a query, i.e. of every AST node
	// kind: list the node types of package ast (types with an Accept method)
	// whose Accept was / was not executed by the query family
	var nodeKindsVisited, nodeKindsNotVisited []string
	if id == "C20" {
		if ap := r.l.pkgs[repoMod+"/ast"]; ap != nil {
			for name, m := range ap.Members {
				t, ok := m.(*ssa.Type)
				if !ok || strings.HasPrefix(name, "verif") || strings.HasPrefix(name, "v") && len(name) > 1 && name[1] >= 'A' && name[1] <= 'Z' {
					continue // harness types
				}
				if _, isIface := t.Type().Underlying().(*types.Interface); isIface {
					continue
				}
				sel := r.l.prog.MethodSets.MethodSet(types.NewPointer(t.Type())).Lookup(ap.Pkg, "Accept")
				if sel == nil {
					continue
				}
				fn := r.l.prog.MethodValue(sel)
				if fn == nil {
					continue
				}
				if r.covered[fn] > 0 {
					nodeKindsVisited = append(nodeKindsVisited, name)
				} else {
					nodeKindsNotVisited = append(nodeKindsNotVisited, name)
				}
			}
			sort.Strings(nodeKindsVisited)
			sort.Strings(nodeKindsNotVisited)
			if len(nodeKindsNotVisited) > 0 {
				outsideList = append(outsideList, "AST node kinds whose Accept no query of the family reaches: "+strings.Join(nodeKindsNotVisited, ", "))
			}
		}
	}

	hsum := []interface{}{}
	for _, h := range hs {
		hsum = append(hsum, map[string]interface{}{
			"harness": h.name, "package": h.pkg, "paths": h.paths, "outcomes": h.outcomes,
			"symbolic_decisions": h.decisions, "assertions_held": h.discharged, "assertions_discharged_by_unsat": h.solverDischarged,
			"labels_reached": h.reached, "ssa_steps": h.steps, "max_symbolic_inputs": h.maxInputs,
		})
	}
	if len(samples) == 0 {
		samples = append(samples, map[string]interface{}{"note": "no model replayed"})
	}
	totalSolverDischarged := 0
	for _, h := range hs {
		totalSolverDischarged += h.solverDischarged
	}
	crossSolvers, crossAsked, crossDisagree := []string{}, 0, 0
	if r.cross != nil {
		crossSolvers, crossAsked, crossDisagree = r.cross.Solvers, r.cross.Asked, len(r.cross.Disagree)
	}
	seed, _ := strconv.Atoi(os.Getenv("VERIF_SEED"))
	status := "pass"
	exit := 0
	if len(inconclusive) > 0 {
		status = "inconclusive"
		exit = 2
	}
	if len(violationLines) > 0 {
		status = "violation"
		exit = 1
	}
	states := totalPaths
	if states < 1 {
		states = 1
	}
	trans := totalDecisions
	if trans < 1 {
		trans = 1
	}
	ev := map[string]interface{}{
		"property_id": id,
		"tier":        r.tierName,
		"seed":        seed,
		"level":       "model_checking",
		"wall_s":      time.Since(t0).Seconds(),
		"violations":  len(violationLines),
		"status":      status,
		"coverage": map[string]interface{}{
			"states":                        states,
			"transitions":                   trans,
			"traces_validated_against_impl": replayed,
			"samples":                       samples,
			"evaluations":                   states,
			"distinct_nontrivial":           nontrivial,
			"rule":                          "one evaluation = one feasible symbolic path of a harness through the real code's SSA (distinct decision vectors); non-trivial = ended normally having reached at least the harness's assertions (not cut as infeasible/outside)",
			"exhaustive":                    len(inconclusive) == 0,
			"harnesses":                     hsum,
			"functions_encoded":             fes,
			"functions_encoded_count":       len(fes),
			"queries": map[string]interface{}{
				"total": r.solverStats.queries, "sat": r.solverStats.sat, "unsat": r.solverStats.unsat, "unknown": r.solverStats.unk,
				"assertion_obligations_discharged": totalDischarged,
				"of_which_by_solver_unsat":         totalSolverDischarged,
				"cross_checked_with":               crossSolvers,
				"cross_check_queries":              crossAsked,
				"cross_check_disagreements":        crossDisagree,
				"paths_rerun_after_solver_timeout": r.retriedPaths,
			},
			"solver":                 "z3 4.8.12 (z3 -in, incremental, 60 s cap per query)",
			"solver_time_s":          r.solverStats.time.Seconds(),
			"load_s":                 r.l.loadSecs,
			"ssa_build_s":            r.l.ssaSecs,
			"ast_node_kinds_visited": nodeKindsVisited,
			"stubs":                  stubList,
			"outside_claim":          outsideList,
			"inconclusive":           inconclusive,
			"known_findings":         knownLines,
			"encoding_source":        "go/ssa built from /repo's working tree on this run (go/packages overlay adds harness files only)",
		},
		"assumptions": append([]string{
			"bounded symbolic execution: sizes/lengths are bounded by the harness (see harness 'bounds' in DESIGN.md); nothing is claimed outside them",
			"map iteration follows one fixed (sorted) order; goroutines run inline (one schedule)",
		}, stubList...),
	}
	os.MkdirAll(evDir, 0o755)
	b, _ := json.MarshalIndent(ev, "", " ")
	os.WriteFile(filepath.Join(evDir, id+".json"), b, 0o644)

	for _, l := range knownLines {
		fmt.Println(l)
	}
	for _, l := range violationLines {
		fmt.Println(l)
	}
	for _, l := range inconclusive {
		fmt.Println("INCONCLUSIVE:", l)
	}
	fmt.Printf("%s %s: %s — %d harnesses, %d paths, %d decisions, %d assertions held (%d by unsat), %d solver queries (%.1fs solver), %d native replays, %.1fs\n",
		id, r.tierName, status, len(hs), totalPaths, totalDecisions, totalDischarged, totalSolverDischarged, r.solverStats.queries, r.solverStats.time.Seconds(), replayed, time.Since(t0).Seconds())
	return exit
}

func firstLine(s string) string {
	if i := strings.IndexByte(s, '\n'); i >= 0 {
		return s[:i]
	}
	return s
}

func (r *runner) knownWhat(id string) string {
	for _, k := range r.known {
		if k.ID == id {
			return k.What
		}
	}
	return ""
}

func compactValues(vs []interp.ReplayValue) interface{} {
	res := []string{}
	for _, m := range vs {
		if m.IsStr {
			var sb []byte
			for _, x := range m.Bytes {
				sb = append(sb, byte(x))
			}
			res = append(res, fmt.Sprintf("%s=%q", m.Tag, string(sb)))
		} else {
			res = append(res, fmt.Sprintf("%s=%d", m.Tag, m.U))
		}
	}
	return res
}
