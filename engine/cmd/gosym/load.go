package main

import (
	"encoding/json"
	"fmt"
	"go/types"
	"os"
	"path/filepath"
	"sort"
	"strings"
	"time"

	"golang.org/x/tools/go/packages"
	"golang.org/x/tools/go/ssa"
	"golang.org/x/tools/go/ssa/ssautil"

	interp "verif/engine/internal/symexec"
)

const repoMod = "github.com/openziti/storage"

// repoDir is /repo; VERIF_REPO points the machinery at another checkout (used
// only to test the checks against seeded changes in a scratch worktree).
var repoDir = func() string {
	if d := os.Getenv("VERIF_REPO"); d != "" {
		return d
	}
	return "/repo"
}()

// verifDir: the directory the check is run from (./check does cd there), so
// that a snapshot of /verif uses its own harness files and evidence directory.
var (
	verifDir   = detectVerifDir()
	harnessDir = verifDir + "/harness"
)

func detectVerifDir() string {
	if wd, err := os.Getwd(); err == nil {
		if st, err := os.Stat(filepath.Join(wd, "harness", "verifrt")); err == nil && st.IsDir() {
			return wd
		}
	}
	return "/verif"
}

// overlayFiles maps virtual paths under /repo to real files under /verif/harness.
// harness/<pkg>/x.go -> /repo/<pkg>/zz_verif_x.go ; harness/verifrt/** -> /repo/verifrt/**
func overlayFiles(extra map[string]string) (map[string]string, error) {
	m := map[string]string{}
	err := filepath.Walk(harnessDir, func(p string, info os.FileInfo, err error) error {
		if err != nil || info.IsDir() || !strings.HasSuffix(p, ".go") {
			return err
		}
		rel, _ := filepath.Rel(harnessDir, p)
		dir, base := filepath.Split(rel)
		var virt string
		if strings.HasPrefix(rel, "verifrt") {
			virt = filepath.Join(repoDir, rel)
		} else {
			virt = filepath.Join(repoDir, dir, "zz_verif_"+base)
		}
		m[virt] = p
		return nil
	})
	for k, v := range extra {
		m[k] = v
	}
	return m, err
}

type loaded struct {
	prog     *ssa.Program
	pkgs     map[string]*ssa.Package // by import path
	P        *interp.Program
	loadSecs float64
	ssaSecs  float64
}

func loadProgram(overlay map[string]string) (*loaded, error) {
	t0 := time.Now()
	ov := map[string][]byte{}
	for virt, real := range overlay {
		b, err := os.ReadFile(real)
		if err != nil {
			return nil, err
		}
		ov[virt] = b
	}
	cfg := &packages.Config{
		Mode:       packages.LoadAllSyntax,
		Dir:        repoDir,
		Overlay:    ov,
		BuildFlags: []string{"-tags=verif", "-mod=mod"},
		Env:        append(os.Environ(), "GOFLAGS=-mod=mod", "GOPROXY=off", "GOSUMDB=off", "GOTOOLCHAIN=local"),
	}
	pats := []string{repoMod + "/ast", repoMod + "/boltz", repoMod + "/objectz", repoMod + "/zitiql", repoMod + "/verifrt/..."}
	initial, err := packages.Load(cfg, pats...)
	if err != nil {
		return nil, err
	}
	nerr := 0
	packages.Visit(initial, nil, func(p *packages.Package) {
		for _, e := range p.Errors {
			if strings.HasPrefix(p.PkgPath, repoMod) {
				fmt.Fprintf(os.Stderr, "load error: %s: %v\n", p.PkgPath, e)
				nerr++
			}
		}
	})
	if nerr > 0 {
		return nil, fmt.Errorf("%d load errors in %s (does the working tree compile?)", nerr, repoMod)
	}
	t1 := time.Now()
	prog, _ := ssautil.AllPackages(initial, ssa.InstantiateGenerics|ssa.SanityCheckFunctions&0)
	prog.Build()
	l := &loaded{prog: prog, pkgs: map[string]*ssa.Package{}}
	for _, p := range prog.AllPackages() {
		l.pkgs[p.Pkg.Path()] = p
	}
	l.loadSecs = t1.Sub(t0).Seconds()
	l.ssaSecs = time.Since(t1).Seconds()
	l.P = interp.NewProgram(prog, types.SizesFor("gc", "amd64"))
	l.P.RepoPrefix = repoMod
	l.P.InitAllow = initAllow
	l.P.ZeroOK = zeroOK
	if err := l.redirectBbolt(); err != nil {
		return nil, err
	}
	// ast.Parse -> ast.VerifParse (real listener + typing driven by the parse
	// trace the real parser produced natively for the same string)
	ap := l.pkgs[repoMod+"/ast"]
	if ap == nil || ap.Func("Parse") == nil || ap.Func("VerifParse") == nil {
		return nil, fmt.Errorf("ast.Parse / ast.VerifParse not found")
	}
	l.P.Redirect(ap.Func("Parse"), ap.Func("VerifParse"))
	// zitiql.ParseZqlDatetime -> table of what the real function returned natively
	zp := l.pkgs[repoMod+"/zitiql"]
	if zp == nil || zp.Func("ParseZqlDatetime") == nil || ap.Func("VerifParseZqlDatetime") == nil {
		return nil, fmt.Errorf("zitiql.ParseZqlDatetime / ast.VerifParseZqlDatetime not found")
	}
	l.P.Redirect(zp.Func("ParseZqlDatetime"), ap.Func("VerifParseZqlDatetime"))
	return l, nil
}

// redirectBbolt maps every method of bbolt's DB/Tx/Bucket/Cursor to the method
// of the same name of the mbolt model; a bbolt method without a model twin is
// left alone (calling it aborts the path as unsupported: no code / unsafe).
func (l *loaded) redirectBbolt() error {
	bp, mp := l.pkgs["go.etcd.io/bbolt"], l.pkgs[repoMod+"/verifrt/mbolt"]
	if bp == nil || mp == nil {
		return fmt.Errorf("bbolt or mbolt package not loaded")
	}
	n := 0
	for _, tn := range []string{"DB", "Tx", "Bucket", "Cursor"} {
		bt, mt := bp.Type(tn), mp.Type(tn)
		if bt == nil || mt == nil {
			return fmt.Errorf("type %s missing", tn)
		}
		bptr := types.NewPointer(bt.Type())
		mptr := types.NewPointer(mt.Type())
		bms := l.prog.MethodSets.MethodSet(bptr)
		for i := 0; i < bms.Len(); i++ {
			sel := bms.At(i)
			name := sel.Obj().Name()
			msel := l.prog.MethodSets.MethodSet(mptr).Lookup(mp.Pkg, name)
			if msel == nil {
				msel = l.prog.MethodSets.MethodSet(mptr).Lookup(nil, name)
			}
			from := l.prog.MethodValue(sel)
			if msel == nil {
				continue
			}
			to := l.prog.MethodValue(msel)
			if from != nil && to != nil {
				l.P.Redirect(from, to)
				n++
			}
		}
	}
	if n < 30 {
		return fmt.Errorf("only %d bbolt methods redirected", n)
	}
	if bp.Func("Open") != nil && mp.Func("Open") != nil {
		l.P.Redirect(bp.Func("Open"), mp.Func("Open"))
	}
	return nil
}

var initAllowPrefixes = []string{
	"go.etcd.io/bbolt/errors",
	repoMod + "/ast", repoMod + "/boltz", repoMod + "/objectz", repoMod + "/verifrt", repoMod + "/boltztest",
	"github.com/biogo/store/llrb",
	"github.com/openziti/foundation/v2/errorz", "github.com/openziti/foundation/v2/stringz",
	"github.com/openziti/foundation/v2/concurrenz", "github.com/openziti/foundation/v2/genext",
	"github.com/pkg/errors", "io", "strconv", "unicode/utf8", "internal/oserror",
	"syscall", "io/fs", "sort", "slices", "cmp", "encoding/binary", "math/bits", "sync/atomic", "bytes", "strings", "unicode",
}

func initAllow(path string) bool {
	for _, p := range initAllowPrefixes {
		if path == p || strings.HasPrefix(path, p+"/") {
			return true
		}
	}
	return false
}

// packages whose globals may be read as zero values without running init
var zeroOKList = map[string]bool{
	"sync": true, "runtime": true, "go.etcd.io/bbolt": true, "time": true, "context": true, "errors": true, "internal/reflectlite": true, "math": true, "internal/race": true, "internal/godebug": true,
	repoMod + "/zitiql": false,
}

func zeroOK(path string) bool { return zeroOKList[path] }

// harnessesFor lists Verif<ID>_* functions of the overlay packages.
func (l *loaded) harnessesFor(id string) []*ssa.Function {
	var out []*ssa.Function
	for _, sub := range []string{"ast", "boltz", "objectz", "zitiql"} {
		p := l.pkgs[repoMod+"/"+sub]
		if p == nil {
			continue
		}
		for name, m := range p.Members {
			if fn, ok := m.(*ssa.Function); ok && strings.HasPrefix(name, "Verif"+id+"_") {
				out = append(out, fn)
			}
		}
	}
	sort.Slice(out, func(i, j int) bool { return out[i].String() < out[j].String() })
	return out
}

// writeRegistry generates, per package with harnesses, a registry + test
// entry point used for native replays; returns extra overlay entries.
func writeRegistry(workDir string) (map[string]string, error) {
	extra := map[string]string{}
	for _, sub := range []string{"ast", "boltz", "objectz", "zitiql"} {
		dir := filepath.Join(harnessDir, sub)
		ents, err := os.ReadDir(dir)
		if err != nil {
			continue
		}
		var names []string
		for _, e := range ents {
			if !strings.HasSuffix(e.Name(), ".go") || strings.HasSuffix(e.Name(), "_test.go") {
				continue
			}
			b, _ := os.ReadFile(filepath.Join(dir, e.Name()))
			for _, line := range strings.Split(string(b), "\n") {
				if strings.HasPrefix(line, "func VerifC") {
					n := strings.TrimPrefix(line, "func ")
					if i := strings.Index(n, "("); i > 0 {
						names = append(names, n[:i])
					}
				}
			}
		}
		if len(names) == 0 {
			continue
		}
		sort.Strings(names)
		var sb strings.Builder
		fmt.Fprintf(&sb, "//go:build verif\n\npackage %s\n\nimport (\n\t\"os\"\n\t\"testing\"\n\n\t\"%s/verifrt\"\n)\n\n", sub, repoMod)
		sb.WriteString("func TestVerifReplay(t *testing.T) {\n\tm := map[string]func(){\n")
		for _, n := range names {
			fmt.Fprintf(&sb, "\t\t%q: %s,\n", n, n)
		}
		sb.WriteString("\t}\n\tif verifrt.RunNative(m) != 0 {\n\t\tt.Fail()\n\t}\n\t_ = os.Args\n}\n")
		out := filepath.Join(workDir, "registry_"+sub+"_test.go")
		if err := os.WriteFile(out, []byte(sb.String()), 0o644); err != nil {
			return nil, err
		}
		extra[filepath.Join(repoDir, sub, "zz_verif_registry_test.go")] = out
	}
	return extra, nil
}

func writeOverlayJSON(path string, ov map[string]string) error {
	b, _ := json.MarshalIndent(map[string]interface{}{"Replace": ov}, "", " ")
	return os.WriteFile(path, b, 0o644)
}
