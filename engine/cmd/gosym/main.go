// gosym: solver-based checking of openziti/storage by symbolic execution of
// its go/ssa form (see /verif/DESIGN.md).
package main

import (
	"bufio"
	"encoding/json"
	"flag"
	"fmt"
	"os"
	"os/exec"
	"os/signal"
	"path/filepath"
	"sort"
	"strconv"
	"strings"
	"sync"
	"syscall"
	"time"

	"golang.org/x/tools/go/ssa"

	"verif/engine/internal/smt"
	interp "verif/engine/internal/symexec"
)

type knownFinding struct {
	ID       string `json:"id"`
	Status   string `json:"status"` // known | fixed
	Property string `json:"property"`
	What     string `json:"what"`
	Commit   string `json:"commit,omitempty"`
}

func loadKnown() ([]knownFinding, error) {
	f, err := os.Open(filepath.Join(verifDir, "known_findings.jsonl"))
	if err != nil {
		if os.IsNotExist(err) {
			return nil, nil
		}
		return nil, err
	}
	defer f.Close()
	var out []knownFinding
	sc := bufio.NewScanner(f)
	sc.Buffer(make([]byte, 1<<20), 1<<20)
	for sc.Scan() {
		line := strings.TrimSpace(sc.Text())
		if line == "" || strings.HasPrefix(line, "#") {
			continue
		}
		var k knownFinding
		if err := json.Unmarshal([]byte(line), &k); err != nil {
			return nil, fmt.Errorf("known_findings.jsonl: %v", err)
		}
		out = append(out, k)
	}
	return out, nil
}

type workItem struct {
	h      *harnessRun
	prefix []int
}

type harnessRun struct {
	fn   *ssa.Function
	name string
	pkg  string // sub-package: ast, boltz, ...

	mu               sync.Mutex
	paths            int
	outcomes         map[string]int
	decisions        int
	steps            int
	discharged       int
	solverDischarged int
	unknowns         int
	reached          map[string]int
	violations       []interp.Violation
	perLabel         map[string]int
	problems         []problem // unsupported / unwound paths
	witness          []interp.ReplayValue
	haveWitness      bool
	stubs            map[string]bool
	outside          map[string]int
	budgetHit        bool
	maxInputs        int
}

type problem struct {
	kind   string
	msg    string
	values []interp.ReplayValue
}

type runner struct {
	l           *loaded
	tier        int
	tierName    string
	workDir     string
	overlay     map[string]string
	ovJSON      string
	cfg         interp.Config
	pathCap     int
	workers     int
	known       []knownFinding
	active      map[string]bool
	covered     map[*ssa.Function]int
	covMu       sync.Mutex
	solverStats struct {
		queries, sat, unsat, unk int
		time                     time.Duration
	}
	testBins    map[string]string
	cross       *interp.CrossCheck
	deadline    time.Time
	deadlineHit bool
	// paths re-run because their first run ended on a solver time-out
	retriedPaths int
	binMu        sync.Mutex
	verbose      bool
}

func main() {
	if len(os.Args) < 2 {
		fmt.Fprintln(os.Stderr, "usage: gosym check <ID> <quick|thorough> | gosym replay <file> | gosym list")
		os.Exit(2)
	}
	// an interrupted run (timeout, vp stop) removes its scratch directory too
	sigc := make(chan os.Signal, 1)
	signal.Notify(sigc, syscall.SIGTERM, syscall.SIGINT, syscall.SIGHUP)
	go func() {
		<-sigc
		if lastWorkDir != "" {
			os.RemoveAll(lastWorkDir)
		}
		fmt.Fprintln(os.Stderr, "gosym: interrupted")
		os.Exit(2)
	}()
	switch os.Args[1] {
	case "check":
		os.Exit(cmdCheck(os.Args[2:]))
	case "replay":
		os.Exit(cmdReplay(os.Args[2:]))
	case "exec":
		os.Exit(cmdExec(os.Args[2:]))
	default:
		fmt.Fprintln(os.Stderr, "unknown command")
		os.Exit(2)
	}
}

var lastWorkDir string

func newRunner(tierName string, verbose bool) (rr *runner, rerr error) {
	defer func() {
		if rerr != nil && rr == nil {
			// setup failed: do not leave the work directory behind
			if lastWorkDir != "" {
				os.RemoveAll(lastWorkDir)
			}
		}
	}()
	r := &runner{tierName: tierName, verbose: verbose, testBins: map[string]string{}, covered: map[*ssa.Function]int{}}
	if tierName == "thorough" {
		r.tier = 1
	}
	wd, err := os.MkdirTemp("", "gosym-work-")
	if err != nil {
		return nil, err
	}
	r.workDir = wd
	lastWorkDir = wd
	extra, err := writeRegistry(wd)
	if err != nil {
		return nil, err
	}
	// storage-fault shim at bbolt's own Put failpoint (overlay only)
	if err := bboltFaultOverlay(wd, extra); err != nil {
		return nil, err
	}
	ov, err := overlayFiles(extra)
	if err != nil {
		return nil, err
	}
	r.overlay = ov
	r.ovJSON = filepath.Join(wd, "overlay.json")
	if err := writeOverlayJSON(r.ovJSON, ov); err != nil {
		return nil, err
	}
	// parse traces of the harness query families, from the real parser of the
	// current tree (native helper, rebuilt on every run)
	gen, err := runAstgen(wd, r.ovJSON)
	if err != nil {
		return nil, err
	}
	ov[filepath.Join(repoDir, "ast", "zz_verif_traces_gen.go")] = gen
	if err := writeOverlayJSON(r.ovJSON, ov); err != nil {
		return nil, err
	}
	// the engine itself does not need the _test registry files
	engOv := map[string]string{}
	for k, v := range ov {
		if !strings.HasSuffix(k, "_test.go") {
			engOv[k] = v
		}
	}
	l, err := loadProgram(engOv)
	if err != nil {
		return nil, err
	}
	r.l = l
	r.known, err = loadKnown()
	if err != nil {
		return nil, err
	}
	r.active = map[string]bool{}
	for _, k := range r.known {
		if k.Status == "known" {
			r.active[k.ID] = true
		}
	}
	r.cross = &interp.CrossCheck{Every: 100, Solvers: []string{"z3-new", "cvc5"}, TimeoutMs: 60000}
	if r.tier == 1 {
		r.cross.Every = 25
	}
	if s := os.Getenv("VERIF_CROSS_EVERY"); s != "" {
		if n, err := strconv.Atoi(s); err == nil {
			r.cross.Every = n
		}
	}
	r.cfg = interp.Config{StepCap: 3_000_000, DepthCap: 400, ActiveKnown: r.active, Tier: r.tier, Cross: r.cross}
	r.pathCap = 400_000
	budget := 20 * time.Minute
	if r.tier == 1 {
		budget = 150 * time.Minute
	}
	if s := os.Getenv("VERIF_BUDGET_MIN"); s != "" {
		if n, err := strconv.Atoi(s); err == nil && n > 0 {
			budget = time.Duration(n) * time.Minute
		}
	}
	r.deadline = time.Now().Add(budget)
	r.workers = 16
	if s := os.Getenv("VERIF_WORKERS"); s != "" {
		if n, err := strconv.Atoi(s); err == nil && n > 0 {
			r.workers = n
		}
	}
	return r, nil
}

// bboltFaultOverlay adds one overlay entry inside the bbolt module directory: a
// copy of bucket.go whose gofail failpoint comment in Put is turned into a call
// of a countdown (appended to the same file).
func bboltFaultOverlay(workDir string, extra map[string]string) error {
	cmd := exec.Command("go", "list", "-m", "-f", "{{.Dir}}", "go.etcd.io/bbolt")
	cmd.Dir = repoDir
	cmd.Env = append(os.Environ(), "GOFLAGS=-mod=mod", "GOPROXY=off", "GOSUMDB=off", "GOTOOLCHAIN=local")
	out, err := cmd.Output()
	if err != nil {
		return fmt.Errorf("locating go.etcd.io/bbolt: %v", err)
	}
	dir := strings.TrimSpace(string(out))
	src, err := os.ReadFile(filepath.Join(dir, "bucket.go"))
	if err != nil {
		return err
	}
	const marker = "// gofail: var beforeBucketPut struct{}"
	if strings.Count(string(src), marker) != 1 {
		return fmt.Errorf("bbolt's bucket.go has no unique %q failpoint marker (other bbolt version?)", marker)
	}
	patched := strings.Replace(string(src), marker, "if verifPutFault() {\n\t\treturn ErrVerifInjected\n\t}", 1)
	// new files cannot be added to a module-cache package by overlay (the go
	// command lists those from its module index), so the countdown is appended
	// to the replaced file
	tail, err := os.ReadFile(filepath.Join(harnessDir, "bboltfault", "fault.go.txt"))
	if err != nil {
		return err
	}
	patched += string(tail)
	pf := filepath.Join(workDir, "bbolt_bucket_fault.go")
	if err := os.WriteFile(pf, []byte(patched), 0o644); err != nil {
		return err
	}
	extra[filepath.Join(dir, "bucket.go")] = pf
	return nil
}

func (r *runner) cleanup() { os.RemoveAll(r.workDir) }

func cmdCheck(args []string) int {
	fs := flag.NewFlagSet("check", flag.ExitOnError)
	verbose := fs.Bool("v", false, "verbose")
	only := fs.String("only", "", "run only harnesses whose name contains this")
	trace := fs.Bool("trace", false, "trace instructions (single worker)")
	noReplay := fs.Bool("noreplay", false, "skip native replays (debugging only; result is never 'pass')")
	fs.Parse(args)
	if fs.NArg() < 2 {
		fmt.Fprintln(os.Stderr, "usage: gosym check [-v] <ID> <quick|thorough>")
		return 2
	}
	id, tierName := fs.Arg(0), fs.Arg(1)
	t0 := time.Now()
	r, err := newRunner(tierName, *verbose)
	if err != nil {
		fmt.Fprintln(os.Stderr, "gosym: setup failed:", err)
		return 2
	}
	defer r.cleanup()
	if *trace {
		r.cfg.Trace = true
		r.workers = 1
	}
	fns := r.l.harnessesFor(id)
	var hs []*harnessRun
	for _, fn := range fns {
		if *only != "" && !strings.Contains(fn.Name(), *only) {
			continue
		}
		hs = append(hs, &harnessRun{fn: fn, name: fn.Name(), pkg: strings.TrimPrefix(fn.Pkg.Pkg.Path(), repoMod+"/"),
			outcomes: map[string]int{}, reached: map[string]int{}, perLabel: map[string]int{}, stubs: map[string]bool{}, outside: map[string]int{}})
	}
	if len(hs) == 0 {
		fmt.Fprintf(os.Stderr, "gosym: no harness for %s\n", id)
		return 2
	}
	if r.verbose {
		fmt.Fprintf(os.Stderr, "loaded in %.1fs (ssa %.1fs); %d harnesses\n", r.l.loadSecs, r.l.ssaSecs, len(hs))
	}
	r.explore(hs)
	rep := r.report(id, hs, t0, *noReplay)
	return rep
}

// explore runs all harnesses with a shared pool of workers over (harness, prefix) items.
func (r *runner) explore(hs []*harnessRun) {
	var mu sync.Mutex
	cond := sync.NewCond(&mu)
	var stack []workItem
	outstanding := 0
	for i := len(hs) - 1; i >= 0; i-- {
		stack = append(stack, workItem{h: hs[i]})
		outstanding++
	}
	var wg sync.WaitGroup
	for w := 0; w < r.workers; w++ {
		wg.Add(1)
		go func(w int) {
			defer wg.Done()
			var solver *smt.Solver
			cov := map[*ssa.Function]int{}
			defer func() {
				if solver != nil {
					r.covMu.Lock()
					r.solverStats.queries += solver.Queries
					r.solverStats.sat += solver.NSat
					r.solverStats.unsat += solver.NUnsat
					r.solverStats.unk += solver.NUnk
					r.solverStats.time += solver.Time
					r.covMu.Unlock()
					solver.Close()
				}
				r.covMu.Lock()
				for f, n := range cov {
					r.covered[f] += n
				}
				r.covMu.Unlock()
			}()
			for {
				mu.Lock()
				for len(stack) == 0 && outstanding > 0 {
					cond.Wait()
				}
				if outstanding == 0 {
					mu.Unlock()
					cond.Broadcast()
					return
				}
				it := stack[len(stack)-1]
				stack = stack[:len(stack)-1]
				mu.Unlock()

				if solver == nil {
					var err error
					solver, err = smt.NewSolver("z3", 60000)
					if err != nil {
						fmt.Fprintln(os.Stderr, "cannot start z3:", err)
						os.Exit(2)
					}
				}
				h := it.h
				h.mu.Lock()
				skip := h.paths >= r.pathCap
				if skip {
					h.budgetHit = true
				}
				if time.Now().After(r.deadline) {
					skip = true
					r.deadlineHit = true
				}
				want := !h.haveWitness
				h.mu.Unlock()
				var res *interp.PathResult
				if !skip {
					cfg := r.cfg
					cfg.WantWitness = want
					// a path that ended on a solver time-out (no answer, or "unknown") is
					// run again, up to two more times, with a fresh solver process: the
					// query and its bound are the same, only a definite answer counts
					for attempt := 0; ; attempt++ {
						res = r.l.P.RunPath(h.fn, it.prefix, solver, cfg, cov)
						if solver.Dead() {
							r.covMu.Lock()
							r.solverStats.queries += solver.Queries
							r.solverStats.sat += solver.NSat
							r.solverStats.unsat += solver.NUnsat
							r.solverStats.unk += solver.NUnk
							r.solverStats.time += solver.Time
							r.covMu.Unlock()
							solver.Close()
							solver = nil
						}
						if (res.Outcome != "solver" && res.Unknowns == 0) || attempt >= 2 {
							break
						}
						r.covMu.Lock()
						r.retriedPaths++
						r.covMu.Unlock()
						if solver != nil {
							solver.Close()
						}
						var err error
						solver, err = smt.NewSolver("z3", 60000)
						if err != nil {
							fmt.Fprintln(os.Stderr, "cannot start z3:", err)
							os.Exit(2)
						}
					}
					if solver == nil {
						var err error
						solver, err = smt.NewSolver("z3", 60000)
						if err != nil {
							fmt.Fprintln(os.Stderr, "cannot start z3:", err)
							os.Exit(2)
						}
					}
					r.absorb(h, res)
				}
				mu.Lock()
				if res != nil {
					for _, p := range res.Pending {
						stack = append(stack, workItem{h: h, prefix: p})
						outstanding++
					}
				}
				outstanding--
				mu.Unlock()
				cond.Broadcast()
			}
		}(w)
	}
	wg.Wait()
}

func (r *runner) absorb(h *harnessRun, res *interp.PathResult) {
	h.mu.Lock()
	defer h.mu.Unlock()
	h.paths++
	h.outcomes[res.Outcome]++
	h.decisions += res.Decisions - res.Forced
	h.steps += res.Steps
	h.discharged += res.Discharged
	h.solverDischarged += res.SolverDischarged
	h.unknowns += res.Unknowns
	if res.Inputs > h.maxInputs {
		h.maxInputs = res.Inputs
	}
	for k, v := range res.Reached {
		h.reached[k] += v
	}
	for k := range res.Stubs {
		h.stubs[k] = true
	}
	for _, o := range res.Outside {
		h.outside[o]++
	}
	for _, v := range res.Violations {
		key := v.Label
		if v.Known != "" {
			key = "known:" + v.Known
		}
		if h.perLabel[key] < 3 {
			h.violations = append(h.violations, v)
		}
		h.perLabel[key]++
	}
	switch res.Outcome {
	case "unsupported", "unwound", "solver":
		if len(h.problems) < 5 {
			h.problems = append(h.problems, problem{kind: res.Outcome, msg: res.Msg, values: res.Witness})
		}
	case "ok":
		if !h.haveWitness && res.Witness != nil && len(res.Reached) > 0 {
			h.witness = res.Witness
			h.haveWitness = true
		}
	}
	if r.verbose && (res.Outcome == "unsupported" || res.Outcome == "unwound" || res.Outcome == "solver") {
		fmt.Fprintf(os.Stderr, "[%s] path %v: %s: %s\n", h.name, res.Taken, res.Outcome, res.Msg)
	}
}

// ---- native replay ----

type replayFile struct {
	Property string               `json:"property"`
	Harness  string               `json:"harness"`
	Package  string               `json:"package"`
	Tier     int                  `json:"tier"`
	Label    string               `json:"label"`
	Kind     string               `json:"kind"`
	Msg      string               `json:"msg"`
	Known    []string             `json:"active_known"`
	Values   []interp.ReplayValue `json:"values"`
}

func (r *runner) testBinary(pkg string) (string, error) {
	r.binMu.Lock()
	defer r.binMu.Unlock()
	if b, ok := r.testBins[pkg]; ok {
		return b, nil
	}
	out := filepath.Join(r.workDir, pkg+".test")
	cmd := exec.Command("go", "test", "-c", "-vet=off", "-tags", "verif", "-overlay", r.ovJSON, "-o", out, "./"+pkg)
	cmd.Dir = repoDir
	cmd.Env = append(os.Environ(), "GOFLAGS=-mod=mod", "GOPROXY=off", "GOSUMDB=off", "GOTOOLCHAIN=local")
	b, err := cmd.CombinedOutput()
	if err != nil {
		return "", fmt.Errorf("native build of %s failed: %v\n%s", pkg, err, b)
	}
	r.testBins[pkg] = out
	return out, nil
}

type nativeResult struct {
	result    string // ok | assert-failed L | panic ... | diverged ... | outside | crash ...
	knownHits []string
	output    string
}

func (r *runner) runNative(pkg, harness, file string) nativeResult {
	bin, err := r.testBinary(pkg)
	if err != nil {
		return nativeResult{result: "build-error " + err.Error()}
	}
	sh := fmt.Sprintf("ulimit -v 4000000; exec timeout -k 2 60 %s -test.run '^TestVerifReplay$' -test.timeout 50s", bin)
	cmd := exec.Command("sh", "-c", sh)
	cmd.Dir = filepath.Join(repoDir, pkg)
	cmd.Env = append(os.Environ(), "VERIF_REPLAY="+file, "VERIF_HARNESS="+harness)
	b, _ := cmd.CombinedOutput()
	out := string(b)
	nr := nativeResult{output: out}
	for _, line := range strings.Split(out, "\n") {
		if strings.HasPrefix(line, "VERIF-RESULT: ") {
			nr.result = strings.TrimPrefix(line, "VERIF-RESULT: ")
		}
		if strings.HasPrefix(line, "VERIF-KNOWN-HIT: ") {
			nr.knownHits = append(nr.knownHits, strings.TrimPrefix(line, "VERIF-KNOWN-HIT: "))
		}
	}
	if nr.result == "" {
		tail := out
		if len(tail) > 400 {
			tail = tail[:400]
		}
		nr.result = "crash " + strings.ReplaceAll(tail, "\n", " | ")
	}
	return nr
}

func (r *runner) writeReplay(id string, h *harnessRun, n int, label, kind, msg string, vals []interp.ReplayValue, dir string) string {
	rf := replayFile{Property: id, Harness: h.name, Package: h.pkg, Tier: r.tier, Label: label, Kind: kind, Msg: msg, Values: vals}
	for k := range r.active {
		rf.Known = append(rf.Known, k)
	}
	sort.Strings(rf.Known)
	os.MkdirAll(dir, 0o755)
	p := filepath.Join(dir, fmt.Sprintf("%s-%s-%d.json", id, h.name, n))
	b, _ := json.MarshalIndent(rf, "", " ")
	os.WriteFile(p, b, 0o644)
	return p
}

func cmdReplay(args []string) int {
	if len(args) < 1 {
		fmt.Fprintln(os.Stderr, "usage: gosym replay <file>")
		return 2
	}
	b, err := os.ReadFile(args[0])
	if err != nil {
		fmt.Fprintln(os.Stderr, err)
		return 2
	}
	var rf replayFile
	if err := json.Unmarshal(b, &rf); err != nil {
		fmt.Fprintln(os.Stderr, err)
		return 2
	}
	r := &runner{testBins: map[string]string{}}
	wd, _ := os.MkdirTemp("", "gosym-replay-")
	defer os.RemoveAll(wd)
	r.workDir = wd
	extra, err := writeRegistry(wd)
	if err != nil {
		fmt.Fprintln(os.Stderr, err)
		return 2
	}
	if err := bboltFaultOverlay(wd, extra); err != nil {
		fmt.Fprintln(os.Stderr, err)
		return 2
	}
	ov, _ := overlayFiles(extra)
	r.ovJSON = filepath.Join(wd, "overlay.json")
	writeOverlayJSON(r.ovJSON, ov)
	abs, _ := filepath.Abs(args[0])
	nr := r.runNative(rf.Package, rf.Harness, abs)
	fmt.Println(nr.output)
	fmt.Println("native result:", nr.result)
	if nr.result == "ok" {
		return 0
	}
	return 1
}

// cmdExec runs one harness in the executor in concrete mode under a replay
// file (debugging / translator validation: must agree with the native run).
func cmdExec(args []string) int {
	if len(args) < 1 {
		fmt.Fprintln(os.Stderr, "usage: gosym exec <replay file>")
		return 2
	}
	b, err := os.ReadFile(args[0])
	if err != nil {
		fmt.Fprintln(os.Stderr, err)
		return 2
	}
	var rf replayFile
	if err := json.Unmarshal(b, &rf); err != nil {
		fmt.Fprintln(os.Stderr, err)
		return 2
	}
	tn := "quick"
	if rf.Tier == 1 {
		tn = "thorough"
	}
	r, err := newRunner(tn, true)
	if err != nil {
		fmt.Fprintln(os.Stderr, err)
		return 2
	}
	defer r.cleanup()
	var fn *ssa.Function
	for _, f := range r.l.harnessesFor(rf.Property) {
		if f.Name() == rf.Harness {
			fn = f
		}
	}
	if fn == nil {
		fmt.Fprintln(os.Stderr, "no such harness", rf.Harness)
		return 2
	}
	solver, err := smt.NewSolver("z3", 60000)
	if err != nil {
		fmt.Fprintln(os.Stderr, err)
		return 2
	}
	defer solver.Close()
	cfg := r.cfg
	cfg.Concrete = rf.Values
	if cfg.Concrete == nil {
		cfg.Concrete = []interp.ReplayValue{}
	}
	cfg.Verbose = true
	if len(args) > 1 && args[1] == "-trace" {
		cfg.Trace = true
	}
	res := r.l.P.RunPath(fn, nil, solver, cfg, nil)
	fmt.Printf("executor (concrete): outcome=%s msg=%s\nreached=%v\n", res.Outcome, res.Msg, res.Reached)
	for _, v := range res.Violations {
		fmt.Printf("violation: %s %s %s\n", v.Kind, v.Label, v.Msg)
	}
	return 0
}

func runAstgen(workDir, ovJSON string) (string, error) {
	bin := filepath.Join(workDir, "astgen")
	env := append(os.Environ(), "GOFLAGS=-mod=mod", "GOPROXY=off", "GOSUMDB=off", "GOTOOLCHAIN=local")
	genDir := filepath.Join(verifDir, "gen")
	if repoDir != "/repo" {
		// the helper module's replace directive names /repo: use a copy that names repoDir
		genDir = filepath.Join(workDir, "gen")
		os.MkdirAll(filepath.Join(genDir, "astgen"), 0o755)
		for _, f := range []string{"go.mod", "go.sum", "astgen/main.go"} {
			b, err := os.ReadFile(filepath.Join(verifDir, "gen", f))
			if err != nil {
				return "", err
			}
			if f == "go.mod" {
				b = []byte(strings.ReplaceAll(string(b), "=> /repo", "=> "+repoDir))
			}
			if err := os.WriteFile(filepath.Join(genDir, f), b, 0o644); err != nil {
				return "", err
			}
		}
	}
	cmd := exec.Command("go", "build", "-tags", "verif", "-overlay", ovJSON, "-o", bin, "./astgen")
	cmd.Dir = genDir
	cmd.Env = env
	if b, err := cmd.CombinedOutput(); err != nil {
		return "", fmt.Errorf("building astgen against /repo failed (does the working tree compile?): %v\n%s", err, b)
	}
	out := filepath.Join(workDir, "traces_gen.go")
	run := exec.Command(bin, out)
	run.Env = env
	if b, err := run.CombinedOutput(); err != nil {
		return "", fmt.Errorf("astgen failed: %v\n%s", err, b)
	}
	return out, nil
}
