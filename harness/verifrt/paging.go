//go:build verif

package verifrt

import "time"

// Reference model of C02 / C19 (DESIGN.md appendix A.2): sort order with nulls
// first ascending, id tie-break, skip/limit window, total count. Everything is
// written with the fork-free combinators so that one assertion is one term.

type Row struct {
	Id string
	S  *string
	I  *int64
	F  *float64
	B  *bool
	M  bool
	T  *time.Time
}

type SortField struct {
	Field string // "s", "i", "f", "b", "m", "id"
	Asc   bool
}

// PagedQuery is the paging half of ast.Query.
type PagedQuery interface {
	SetSkip(int64)
	SetLimit(int64)
}

// cmpField: -1 / 0 / +1 of rows x, y on one field ascending (nulls first),
// as a fork-free int64 term.
func CmpField(f string, x, y *Row, xi, yi int) int64 {
	lt, gt := false, false
	nullLess := func(xn, yn bool, vlt, vgt bool) (bool, bool) {
		// xn/yn: null flags (concrete per path); vlt/vgt: value comparison when both non-null
		if xn {
			return !yn, false
		}
		if yn {
			return false, true
		}
		return vlt, vgt
	}
	switch f {
	case "id":
		lt, gt = xi < yi, xi > yi // ids are in slot order
	case "s":
		var vlt, vgt bool
		if x.S != nil && y.S != nil {
			vlt, vgt = *x.S < *y.S, *x.S > *y.S
		}
		lt, gt = nullLess(x.S == nil, y.S == nil, vlt, vgt)
	case "i":
		var vlt, vgt bool
		if x.I != nil && y.I != nil {
			vlt, vgt = *x.I < *y.I, *x.I > *y.I
		}
		lt, gt = nullLess(x.I == nil, y.I == nil, vlt, vgt)
	case "f":
		var vlt, vgt bool
		if x.F != nil && y.F != nil {
			vlt, vgt = *x.F < *y.F, *x.F > *y.F
		}
		lt, gt = nullLess(x.F == nil, y.F == nil, vlt, vgt)
	case "t":
		var vlt, vgt bool
		if x.T != nil && y.T != nil {
			vlt, vgt = x.T.Before(*y.T), x.T.After(*y.T)
		}
		lt, gt = nullLess(x.T == nil, y.T == nil, vlt, vgt)
	case "m":
		lt, gt = And(Not(x.M), y.M), And(x.M, Not(y.M))
	case "b":
		var vlt, vgt bool
		if x.B != nil && y.B != nil {
			vlt, vgt = And(Not(*x.B), *y.B), And(*x.B, Not(*y.B))
		}
		lt, gt = nullLess(x.B == nil, y.B == nil, vlt, vgt)
	}
	return IteInt64(lt, -1, IteInt64(gt, 1, 0))
}

// precedes: does row x come strictly before row y under the sort spec
// (remaining ties broken by id ascending)?
func Precedes(spec []SortField, x, y *Row, xi, yi int) bool {
	res := xi < yi // final tie-break
	for k := len(spec) - 1; k >= 0; k-- {
		c := CmpField(spec[k].Field, x, y, xi, yi)
		if !spec[k].Asc {
			c = -c
		}
		res = IteBool(c < 0, true, IteBool(c > 0, false, res))
	}
	return res
}

type Paging struct {
	HasSkip  bool
	Skip     int64
	LimitSet int // 0 absent, 1 "none", 2 value
	Limit    int64
}

func SymPaging() Paging {
	p := Paging{}
	p.HasSkip = Choose("skip.set", 2) == 1
	if p.HasSkip {
		p.Skip = Int64("skip")
	}
	p.LimitSet = Choose("limit.set", 3)
	if p.LimitSet == 2 {
		p.Limit = Int64("limit")
	}
	return p
}

func (p Paging) Apply(q PagedQuery) {
	if p.HasSkip {
		q.SetSkip(p.Skip)
	}
	switch p.LimitSet {
	case 1:
		q.SetLimit(-1) // what `limit none` parses to
	case 2:
		q.SetLimit(p.Limit)
	}
}

// expected page: k = max(skip,0) rows dropped, at most limit kept (absent,
// negative, none = unbounded); all arithmetic overflow-free.
func (p Paging) ExpectLen(nMatch int64) int64 {
	k := int64(0)
	if p.HasSkip {
		k = IteInt64(p.Skip > 0, p.Skip, 0)
	}
	rest := IteInt64(k >= nMatch, 0, nMatch-k) // nMatch - k cannot overflow when k < nMatch
	if p.LimitSet == 2 {
		lim := IteInt64(p.Limit < 0, rest, p.Limit)
		return IteInt64(lim < rest, lim, rest)
	}
	return rest
}

func (p Paging) Offset() int64 {
	if p.HasSkip {
		return IteInt64(p.Skip > 0, p.Skip, 0)
	}
	return 0
}

// checkPage: ids == the matching rows of rank offset, offset+1, ... in the
// specified order; count == number of matching rows.
func CheckPage(rows []*Row, match []bool, spec []SortField, p Paging, ids []string, count int64, label string) {
	n := len(rows)
	nMatch := int64(0)
	rank := make([]int64, n)
	for i := range rows {
		nMatch += IteInt64(match[i], 1, 0)
		for j := range rows {
			if j != i {
				rank[i] += IteInt64(And(match[j], Precedes(spec, rows[j], rows[i], j, i)), 1, 0)
			}
		}
	}
	Assert(count == nMatch, label+": count is the number of matching rows, whatever skip and limit are")
	Assert(int64(len(ids)) == p.ExpectLen(nMatch), label+": page length = min(limit, matches - max(skip,0))")
	off := p.Offset()
	ok := true
	for pos, id := range ids {
		hit := false
		for i := range rows {
			// rank_i == off + pos, written without overflow
			hit = Or(hit, And(And(match[i], id == rows[i].Id), rank[i]-int64(pos) == off))
		}
		ok = And(ok, hit)
	}
	Assert(ok, label+": page holds the matching rows in the requested order, ties by id")
}
