//go:build verif

package verifrt

import "bytes"

// Cursor is structurally ast.SetCursor; Seeker is the Seek half of
// ast.SeekableSetCursor (declared here to avoid an import cycle).
type Cursor interface {
	Next()
	IsValid() bool
	Current() []byte
}

type Seeker interface {
	Seek([]byte)
}

func Member(set [][]byte, x []byte) bool {
	m := false
	for _, e := range set {
		m = Or(m, bytes.Equal(e, x))
	}
	return m
}

// SymSet returns n <= maxN byte strings with lengths minLen..maxLen
// (arbitrary bytes; duplicates possible).
func SymSet(tag string, maxN, minLen, maxLen int) [][]byte {
	n := Choose(tag+".n", maxN+1)
	out := make([][]byte, n)
	for i := 0; i < n; i++ {
		l := minLen + Choose(tag+".len", maxLen-minLen+1)
		out[i] = Bytes(tag, l)
	}
	return out
}

// SortedSet returns a strictly increasing list of n <= maxN distinct byte
// strings. Every finite set has exactly one such listing, so no set is lost;
// fixing the listing order keeps a container's insertion comparisons from
// multiplying paths.
func SortedSet(tag string, maxN, minLen, maxLen int) [][]byte {
	out := SymSet(tag, maxN, minLen, maxLen)
	for i := 1; i < len(out); i++ {
		Assume(bytes.Compare(out[i-1], out[i]) < 0)
	}
	return out
}

func CopyBytes(b []byte) []byte {
	c := make([]byte, len(b))
	copy(c, b)
	return c
}

// Bound describes the part of an ordered set a cursor position must be the
// extreme element of: no bound, > v / >= v (forward), < v / <= v (reverse).
type Bound struct {
	Has    bool
	Strict bool
	V      []byte
}

func (bd Bound) Admits(x []byte, forward bool) bool {
	if !bd.Has {
		return true
	}
	c := bytes.Compare(x, bd.V)
	if forward {
		if bd.Strict {
			return c > 0
		}
		return c >= 0
	}
	if bd.Strict {
		return c < 0
	}
	return c <= 0
}

// CheckPosition asserts that cursor c stands on the first element (in
// iteration order) of set that the bound admits, or is invalid if there is
// none. Fork-free: the condition is one term.
func CheckPosition(set [][]byte, bd Bound, c Cursor, forward bool, label string) {
	if c.IsValid() {
		cur := c.Current()
		ok := And(Member(set, cur), bd.Admits(cur, forward))
		for _, m := range set {
			cmp := bytes.Compare(m, cur)
			var before bool
			if forward {
				before = cmp < 0
			} else {
				before = cmp > 0
			}
			ok = And(ok, Not(And(bd.Admits(m, forward), before)))
		}
		Assert(ok, label+": positioned on the first admissible element")
	} else {
		none := true
		for _, m := range set {
			none = And(none, Not(bd.Admits(m, forward)))
		}
		Assert(none, label+": invalid only when no admissible element exists")
	}
}

// CursorScript drives a cursor with a symbolic script of Next / Seek steps and
// checks every position against the ordered-set semantics.
func CursorScript(set [][]byte, c Cursor, forward bool, steps int, maxSeekLen int, label string) {
	CheckPosition(set, Bound{}, c, forward, label+" initial")
	seekable, canSeek := c.(Seeker)
	for step := 0; step < steps; step++ {
		op := 0
		if canSeek {
			op = Choose("op", 2)
		}
		if op == 0 {
			if !c.IsValid() {
				return
			}
			last := CopyBytes(c.Current())
			c.Next()
			CheckPosition(set, Bound{Has: true, Strict: true, V: last}, c, forward, label+" next")
		} else {
			v := Bytes("seek", Choose("seek.len", maxSeekLen+1))
			seekable.Seek(v)
			CheckPosition(set, Bound{Has: true, Strict: false, V: v}, c, forward, label+" seek")
		}
	}
}

// Drain iterates c to exhaustion (at most max+1 steps) checking every position.
func Drain(set [][]byte, c Cursor, forward bool, max int, label string) {
	CheckPosition(set, Bound{}, c, forward, label+" initial")
	for i := 0; i <= max && c.IsValid(); i++ {
		last := CopyBytes(c.Current())
		c.Next()
		CheckPosition(set, Bound{Has: true, Strict: true, V: last}, c, forward, label+" next")
	}
	Assert(!c.IsValid(), label+": exhausted after at most |set| steps")
}
