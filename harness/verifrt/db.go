//go:build verif

package verifrt

import (
	"os"
	"path/filepath"

	"go.etcd.io/bbolt"

	"github.com/openziti/storage/verifrt/mbolt"
)

var tempDirs []string

// OpenDB returns a fresh empty database: a real bbolt file natively, the
// mbolt model under the symbolic executor (the call is intercepted there).
func OpenDB() *bbolt.DB {
	dir, err := os.MkdirTemp("", "verif-db-")
	if err != nil {
		panic(divergence{err.Error()})
	}
	tempDirs = append(tempDirs, dir)
	db, err := bbolt.Open(filepath.Join(dir, "v.db"), 0600, &bbolt.Options{NoSync: true, NoFreelistSync: true})
	if err != nil {
		panic(divergence{err.Error()})
	}
	return db
}

// CleanupDBs removes the temp files of OpenDB (native only).
func CleanupDBs() {
	for _, d := range tempDirs {
		os.RemoveAll(d)
	}
	tempDirs = nil
}

// keep the model linked into every harness program
var _ = mbolt.NewDB

// TempPath returns a path for a scratch database file: inside a temp
// directory natively, a name in the model's registry under the executor.
func TempPath(name string) string {
	dir, err := os.MkdirTemp("", "verif-db-")
	if err != nil {
		panic(divergence{err.Error()})
	}
	tempDirs = append(tempDirs, dir)
	return filepath.Join(dir, name)
}

// SetPutFault arms a storage fault: the k-th bbolt Bucket.Put from now fails
// with an injected error (k <= 0 disarms). Natively this drives the countdown
// overlaid at bbolt's own Put failpoint; under the executor the call is
// intercepted and arms the same countdown in the mbolt model.
func SetPutFault(k int) {
	bbolt.VerifPutFaultCountdown = k
	bbolt.VerifPutFaultFired = false
}

// DisarmPutFault cancels a fault that has not been delivered (the record of a
// delivered one stays).
func DisarmPutFault() { bbolt.VerifPutFaultCountdown = 0 }

// PutFaultFired: whether the armed fault has been delivered.
func PutFaultFired() bool { return bbolt.VerifPutFaultFired }
