//go:build verif

package verifrt

import (
	"os"
	"path/filepath"

	"go.etcd.io/bbolt"

	"github.com/openziti/storage/verifrt/mbolt"
)

var tempDirs []string

// OpenDB returns a fresh empty database: a real bbolt file natively, the
// mbolt model under the symbolic executor (the call is intercepted there).
func OpenDB() *bbolt.DB {
	dir, err := os.MkdirTemp("", "verif-db-")
	if err != nil {
		panic(divergence{err.Error()})
	}
	tempDirs = append(tempDirs, dir)
	db, err := bbolt.Open(filepath.Join(dir, "v.db"), 0600, &bbolt.Options{NoSync: true, NoFreelistSync: true})
	if err != nil {
		panic(divergence{err.Error()})
	}
	return db
}

// CleanupDBs removes the temp files of OpenDB (native only).
func CleanupDBs() {
	for _, d := range tempDirs {
		os.RemoveAll(d)
	}
	tempDirs = nil
}

// keep the model linked into every harness program
var _ = mbolt.NewDB

// TempPath returns a path for a scratch database file: inside a temp
// directory natively, a name in the model's registry under the executor.
func TempPath(name string) string {
	dir, err := os.MkdirTemp("", "verif-db-")
	if err != nil {
		panic(divergence{err.Error()})
	}
	tempDirs = append(tempDirs, dir)
	return filepath.Join(dir, name)
}
