//go:build verif

package mbolt

// Differential validation of the model against real bbolt (native only).
// Decides no property: it pins the stub's contract (DESIGN.md section 3.1).

import (
	"fmt"
	"math/rand"
	"path/filepath"
	"testing"

	"go.etcd.io/bbolt"
)

type api interface {
	put(k string, nilv bool) string
	del(k string) string
	get(k string) string
	createB(k string) string
	deleteB(k string) string
	subPut(b, k string) string
	first() string
	last() string
	next() string
	prev() string
	seek(k string) string
	cdel() string
	dump() string
}

func show(k, v []byte) string {
	if k == nil {
		return "nil"
	}
	if v == nil {
		return fmt.Sprintf("%q=nil", k)
	}
	return fmt.Sprintf("%q=%q", k, v)
}

func errs(err error) string {
	if err == nil {
		return "ok"
	}
	return err.Error()
}

type realAPI struct {
	tx *bbolt.Tx
	b  *bbolt.Bucket
	c  *bbolt.Cursor
}

func (a *realAPI) put(k string, nilv bool) string {
	if nilv {
		return errs(a.b.Put([]byte(k), nil))
	}
	return errs(a.b.Put([]byte(k), []byte("v"+k)))
}
func (a *realAPI) del(k string) string { return errs(a.b.Delete([]byte(k))) }
func (a *realAPI) get(k string) string {
	v := a.b.Get([]byte(k))
	if v == nil {
		return "nil"
	}
	return fmt.Sprintf("%q", v)
}
func (a *realAPI) createB(k string) string {
	_, err := a.b.CreateBucketIfNotExists([]byte(k))
	return errs(err)
}
func (a *realAPI) deleteB(k string) string { return errs(a.b.DeleteBucket([]byte(k))) }
func (a *realAPI) subPut(b, k string) string {
	sb := a.b.Bucket([]byte(b))
	if sb == nil {
		return "nobucket"
	}
	return errs(sb.Put([]byte(k), []byte("s")))
}
func (a *realAPI) first() string { return show(a.c.First()) }
func (a *realAPI) last() string  { return show(a.c.Last()) }
func (a *realAPI) next() string  { return show(a.c.Next()) }
func (a *realAPI) prev() string  { return show(a.c.Prev()) }
func (a *realAPI) seek(k string) string {
	return show(a.c.Seek([]byte(k)))
}
func (a *realAPI) cdel() string { return errs(a.c.Delete()) }
func (a *realAPI) dump() string {
	s := ""
	c := a.b.Cursor()
	for k, v := c.First(); k != nil; k, v = c.Next() {
		s += show(k, v) + ";"
		if v == nil {
			if sb := a.b.Bucket(k); sb != nil {
				sc := sb.Cursor()
				for k2, v2 := sc.First(); k2 != nil; k2, v2 = sc.Next() {
					s += "  " + show(k2, v2) + ";"
				}
			}
		}
	}
	return s
}

type modelAPI struct {
	tx *Tx
	b  *Bucket
	c  *Cursor
}

func (a *modelAPI) put(k string, nilv bool) string {
	if nilv {
		return errs(a.b.Put([]byte(k), nil))
	}
	return errs(a.b.Put([]byte(k), []byte("v"+k)))
}
func (a *modelAPI) del(k string) string { return errs(a.b.Delete([]byte(k))) }
func (a *modelAPI) get(k string) string {
	v := a.b.Get([]byte(k))
	if v == nil {
		return "nil"
	}
	return fmt.Sprintf("%q", v)
}
func (a *modelAPI) createB(k string) string {
	_, err := a.b.CreateBucketIfNotExists([]byte(k))
	return errs(err)
}
func (a *modelAPI) deleteB(k string) string { return errs(a.b.DeleteBucket([]byte(k))) }
func (a *modelAPI) subPut(b, k string) string {
	sb := a.b.Bucket([]byte(b))
	if sb == nil {
		return "nobucket"
	}
	return errs(sb.Put([]byte(k), []byte("s")))
}
func (a *modelAPI) first() string { return show(a.c.First()) }
func (a *modelAPI) last() string  { return show(a.c.Last()) }
func (a *modelAPI) next() string  { return show(a.c.Next()) }
func (a *modelAPI) prev() string  { return show(a.c.Prev()) }
func (a *modelAPI) seek(k string) string {
	return show(a.c.Seek([]byte(k)))
}
func (a *modelAPI) cdel() string { return errs(a.c.Delete()) }
func (a *modelAPI) dump() string {
	s := ""
	c := a.b.Cursor()
	for k, v := c.First(); k != nil; k, v = c.Next() {
		s += show(k, v) + ";"
		if v == nil {
			if sb := a.b.Bucket(k); sb != nil {
				sc := sb.Cursor()
				for k2, v2 := sc.First(); k2 != nil; k2, v2 = sc.Next() {
					s += "  " + show(k2, v2) + ";"
				}
			}
		}
	}
	return s
}

var keys = []string{"", "a", "ab", "b", "c"}

type op struct {
	kind int
	k    string
}

func allOps() []op {
	var ops []op
	for _, k := range keys {
		ops = append(ops, op{0, k}, op{1, k}, op{2, k}, op{9, k}, op{12, k})
	}
	for _, k := range []string{"", "ab", "c"} {
		ops = append(ops, op{3, k}, op{4, k}, op{11, k})
	}
	ops = append(ops, op{5, ""}, op{6, ""}, op{7, ""}, op{8, ""}, op{10, ""})
	return ops
}

// run applies the ops; placed tracks whether the cursor has been positioned
// (bbolt panics on Next/Prev/Delete of a never-positioned cursor: skipped).
func run(a api, ops []op) []string {
	var out []string
	placed := false
	for _, o := range ops {
		switch o.kind {
		case 0:
			out = append(out, "put "+a.put(o.k, false))
		case 12:
			out = append(out, "putnil "+a.put(o.k, true))
		case 1:
			out = append(out, "del "+a.del(o.k))
		case 2:
			out = append(out, "get "+a.get(o.k))
		case 3:
			out = append(out, "createB "+a.createB(o.k))
		case 4:
			out = append(out, "deleteB "+a.deleteB(o.k))
		case 11:
			out = append(out, "subput "+a.subPut(o.k, "x"))
		case 5:
			placed = true
			out = append(out, "first "+a.first())
		case 6:
			placed = true
			out = append(out, "last "+a.last())
		case 7:
			if placed {
				out = append(out, "next "+a.next())
			}
		case 8:
			if placed {
				out = append(out, "prev "+a.prev())
			}
		case 9:
			placed = true
			out = append(out, "seek "+a.seek(o.k))
		case 10:
			if placed {
				out = append(out, "cdel "+a.cdel())
			}
		}
	}
	out = append(out, "dump "+a.dump())
	return out
}

var errRollback = fmt.Errorf("rollback")

func setup(initial int, put func(k string), mkB func(k string), subPut func(b, k string)) {
	switch initial {
	case 1:
		put("a")
		put("b")
		put("c")
	case 2:
		put("a")
		mkB("ab")
		subPut("ab", "x")
		put("b")
	case 3:
		put("b")
	}
}

func TestModelAgainstBbolt(t *testing.T) {
	dir := t.TempDir()
	ops := allOps()
	seqs := 0
	check := func(initial int, seq []op, commitMid int) {
		// real
		rdb, err := bbolt.Open(filepath.Join(dir, fmt.Sprintf("r%d.db", seqs%4)), 0600, &bbolt.Options{NoSync: true, NoFreelistSync: true})
		if err != nil {
			t.Fatal(err)
		}
		defer rdb.Close()
		mdb := NewDB()
		var rout, mout []string
		_ = rdb.Update(func(tx *bbolt.Tx) error {
			tx.DeleteBucket([]byte("root"))
			b, _ := tx.CreateBucket([]byte("root"))
			setup(initial, func(k string) { b.Put([]byte(k), []byte("v"+k)) }, func(k string) { b.CreateBucket([]byte(k)) }, func(bk, k string) { b.Bucket([]byte(bk)).Put([]byte(k), []byte("s")) })
			return nil
		})
		_ = mdb.Update(func(tx *Tx) error {
			b, _ := tx.CreateBucket([]byte("root"))
			setup(initial, func(k string) { b.Put([]byte(k), []byte("v"+k)) }, func(k string) { b.CreateBucket([]byte(k)) }, func(bk, k string) { b.Bucket([]byte(bk)).Put([]byte(k), []byte("s")) })
			return nil
		})
		first, second := seq, []op(nil)
		if commitMid >= 0 && commitMid <= len(seq) {
			first, second = seq[:commitMid], seq[commitMid:]
		}
		_ = rdb.Update(func(tx *bbolt.Tx) error {
			b := tx.Bucket([]byte("root"))
			rout = run(&realAPI{tx, b, b.Cursor()}, first)
			return nil
		})
		_ = mdb.Update(func(tx *Tx) error {
			b := tx.Bucket([]byte("root"))
			mout = run(&modelAPI{tx, b, b.Cursor()}, first)
			return nil
		})
		if second != nil {
			_ = rdb.Update(func(tx *bbolt.Tx) error {
				b := tx.Bucket([]byte("root"))
				rout = append(rout, run(&realAPI{tx, b, b.Cursor()}, second)...)
				return nil
			})
			_ = mdb.Update(func(tx *Tx) error {
				b := tx.Bucket([]byte("root"))
				mout = append(mout, run(&modelAPI{tx, b, b.Cursor()}, second)...)
				return nil
			})
		}
		seqs++
		if fmt.Sprint(rout) != fmt.Sprint(mout) {
			t.Fatalf("model differs from bbolt\ninitial=%d commitMid=%d ops=%v\nreal : %v\nmodel: %v", initial, commitMid, seq, rout, mout)
		}
	}
	// exhaustive length <= 2 (all initial states), length 3 on two states
	for initial := 0; initial < 4; initial++ {
		for _, a := range ops {
			check(initial, []op{a}, -1)
			for _, b := range ops {
				check(initial, []op{a, b}, -1)
			}
		}
	}
	rng := rand.New(rand.NewSource(1))
	n := 30000
	if testing.Short() {
		n = 4000
	}
	for i := 0; i < n; i++ {
		l := 3 + rng.Intn(5)
		seq := make([]op, l)
		for j := range seq {
			seq[j] = ops[rng.Intn(len(ops))]
		}
		commitMid := -1
		if rng.Intn(3) == 0 {
			commitMid = rng.Intn(l + 1)
		}
		check(rng.Intn(4), seq, commitMid)
	}
	t.Logf("mbolt == bbolt on %d operation sequences", seqs)
}
