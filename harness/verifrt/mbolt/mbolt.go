//go:build verif

// Package mbolt is a plain-Go model of the part of the bbolt API that boltz
// uses (see /verif/DESIGN.md section 3.1). Under the symbolic executor every
// method of bbolt's DB/Tx/Bucket/Cursor is redirected to the method of the
// same name here. The model covers single-leaf buckets: a bucket is a sorted
// slice of entries; a cursor reads either the committed image of the bucket
// (when positioned before the bucket was modified in this transaction) or
// the live entries (afterwards), exactly the two modes bbolt's cursor has.
//
// It is validated against real bbolt by diff_test.go (native, at setup).
package mbolt

import (
	"bytes"
	"errors"
	"os"

	"go.etcd.io/bbolt"

	berrors "go.etcd.io/bbolt/errors"
)

var ErrInjected = errors.New("mbolt: injected storage failure")

// FaultCountdown > 0: the FaultCountdown-th Put from now fails (the position of
// bbolt's own "beforeBucketPut" failpoint: after argument validation and the
// incompatible-value check, before the insertion).
var (
	FaultCountdown int
	FaultFired     bool
)

func SetFault(k int) { FaultCountdown, FaultFired = k, false }

func Disarm() { FaultCountdown = 0 }

func Fired() bool { return FaultFired }

func putFault() bool {
	if FaultCountdown > 0 {
		FaultCountdown--
		if FaultCountdown == 0 {
			FaultFired = true
			return true
		}
	}
	return false
}

type entry struct {
	key []byte
	val []byte
	sub *node // non-nil: nested bucket
}

type node struct {
	entries []*entry
	// dirty: modified in the current transaction (bbolt: the bucket's root has
	// been materialised as a node). Cursors positioned before that keep reading
	// the old entries array, which is never mutated afterwards.
	dirty bool
}

func cloneBytes(b []byte) []byte {
	if b == nil {
		return nil
	}
	c := make([]byte, len(b))
	copy(c, b)
	return c
}

func (n *node) clone() *node {
	c := &node{entries: make([]*entry, len(n.entries))}
	for i, e := range n.entries {
		ne := &entry{key: e.key, val: e.val}
		if e.sub != nil {
			ne.sub = e.sub.clone()
		}
		c.entries[i] = ne
	}
	return c
}

// normalize: what a commit does to the image: nil values read back empty,
// dirty flags are cleared.
func (n *node) normalize() {
	for _, e := range n.entries {
		if e.sub != nil {
			e.sub.normalize()
		} else if e.val == nil {
			e.val = []byte{}
		}
	}
	n.dirty = false
}

func (n *node) touch() {
	if !n.dirty {
		// continue on a fresh array: cursors positioned earlier keep the old one
		fresh := make([]*entry, len(n.entries))
		copy(fresh, n.entries)
		n.entries = fresh
		n.dirty = true
	}
}

// search returns the first index whose key >= k and whether it is an exact hit.
func search(es []*entry, k []byte) (int, bool) {
	for i, e := range es {
		c := bytes.Compare(e.key, k)
		if c == 0 {
			return i, true
		}
		if c > 0 {
			return i, false
		}
	}
	return len(es), false
}

type DB struct {
	root   *node
	path   string
	closed bool
	wtx    *Tx
}

type Stats struct{ TxN int }

// registry of model databases by path (bbolt.Open of a path that was written
// before yields the same content)
var registry = map[string]*DB{}
var dbCounter int

func NewDB() *DB {
	dbCounter++
	db := &DB{root: &node{}, path: "/mbolt/db" + string(rune('0'+dbCounter))}
	registry[db.path] = db
	return db
}

// Open models bbolt.Open: the database stored at path, created empty if new.
func Open(path string, mode os.FileMode, options *bbolt.Options) (*DB, error) {
	if db, ok := registry[path]; ok {
		db.closed = false
		return db, nil
	}
	db := &DB{root: &node{}, path: path}
	registry[path] = db
	return db, nil
}

// Fork registers a copy of db's committed content under path (what
// tx.CopyFile produces).
func Fork(db *DB, path string) *DB {
	c := &DB{root: db.root.clone(), path: path}
	c.root.normalize()
	registry[path] = c
	return c
}

// CopyPath models copying the database file at src to dst (io.Copy between two
// files): dst holds a copy of src's committed content.
func CopyPath(src, dst string) bool {
	db, ok := registry[src]
	if !ok {
		return false
	}
	c := &DB{root: db.root.clone(), path: dst}
	c.root.normalize()
	registry[dst] = c
	return true
}

// RenamePath models os.Rename of a database file.
func RenamePath(from, to string) bool {
	db, ok := registry[from]
	if !ok {
		return false
	}
	delete(registry, from)
	db.path = to
	registry[to] = db
	return true
}

// CreatePath models os.Create of a file that will receive a database image.
func CreatePath(path string) {
	registry[path] = &DB{root: &node{}, path: path}
}

func PathExists(path string) bool { _, ok := registry[path]; return ok }

// RemovePath models os.Remove of a database file.
func RemovePath(path string) bool {
	if _, ok := registry[path]; !ok {
		return false
	}
	delete(registry, path)
	return true
}

func (db *DB) Path() string     { return db.path }
func (db *DB) Close() error     { db.closed = true; return nil }
func (db *DB) Stats() Stats     { return Stats{} }
func (db *DB) String() string   { return "mbolt.DB" }
func (db *DB) IsReadOnly() bool { return false }

type Tx struct {
	db       *DB
	writable bool
	root     *Bucket
	managed  bool
	done     bool
	commitH  []func()
	rollH    []func()
}

func (db *DB) Begin(writable bool) (*Tx, error) {
	if db.closed {
		return nil, berrors.ErrDatabaseNotOpen
	}
	tx := &Tx{db: db, writable: writable}
	if writable {
		tx.root = &Bucket{tx: tx, n: db.root.clone()}
		db.wtx = tx
	} else {
		tx.root = &Bucket{tx: tx, n: db.root}
	}
	return tx, nil
}

func (tx *Tx) DB() *DB              { return tx.db }
func (tx *Tx) Writable() bool       { return tx.writable }
func (tx *Tx) ID() int              { return 1 }
func (tx *Tx) Size() int64          { return 0 }
func (tx *Tx) OnCommit(fn func())   { tx.commitH = append(tx.commitH, fn) }
func (tx *Tx) OnRollback(fn func()) { tx.rollH = append(tx.rollH, fn) }

func (tx *Tx) Commit() error {
	if tx.managed {
		panic("managed tx commit not allowed")
	}
	return tx.commit()
}

func (tx *Tx) commit() error {
	if tx.done {
		return berrors.ErrTxClosed
	}
	if !tx.writable {
		return berrors.ErrTxNotWritable
	}
	tx.root.n.normalize()
	tx.db.root = tx.root.n
	tx.db.wtx = nil
	tx.done = true
	for _, fn := range tx.commitH {
		fn()
	}
	return nil
}

func (tx *Tx) Rollback() error {
	if tx.managed {
		panic("managed tx rollback not allowed")
	}
	if tx.done {
		return berrors.ErrTxClosed
	}
	tx.rollback()
	return nil
}

func (tx *Tx) rollback() {
	if tx.done {
		return
	}
	tx.done = true
	if tx.writable {
		tx.db.wtx = nil
	}
	for _, fn := range tx.rollH {
		fn()
	}
}

func (db *DB) Update(fn func(*Tx) error) error {
	tx, err := db.Begin(true)
	if err != nil {
		return err
	}
	defer func() {
		if !tx.done {
			tx.rollback()
		}
	}()
	tx.managed = true
	err = fn(tx)
	tx.managed = false
	if err != nil {
		tx.rollback()
		return err
	}
	return tx.commit()
}

// Batch: bbolt runs the function inside a (possibly shared) batch transaction;
// when the function fails, the batch is rolled back and the failing function is
// run again on its own with Update, whose result the caller gets. With a single
// caller that is: run it, and on failure run it once more.
func (db *DB) Batch(fn func(*Tx) error) error {
	err := db.Update(fn)
	if err != nil {
		err = db.Update(fn)
	}
	return err
}

func (db *DB) View(fn func(*Tx) error) error {
	tx, err := db.Begin(false)
	if err != nil {
		return err
	}
	defer func() {
		if !tx.done {
			tx.rollback()
		}
	}()
	tx.managed = true
	err = fn(tx)
	tx.managed = false
	tx.rollback()
	return err
}

// CopyFile models tx.CopyFile: the transaction's view of the database becomes
// the content of the database at path.
func (tx *Tx) CopyFile(path string, mode os.FileMode) error {
	c := &DB{root: tx.root.n.clone(), path: path}
	c.root.normalize()
	registry[path] = c
	return nil
}

func (tx *Tx) Bucket(name []byte) *Bucket { return tx.root.Bucket(name) }
func (tx *Tx) CreateBucket(name []byte) (*Bucket, error) {
	return tx.root.CreateBucket(name)
}
func (tx *Tx) CreateBucketIfNotExists(name []byte) (*Bucket, error) {
	return tx.root.CreateBucketIfNotExists(name)
}
func (tx *Tx) DeleteBucket(name []byte) error { return tx.root.DeleteBucket(name) }
func (tx *Tx) Cursor() *Cursor                { return tx.root.Cursor() }
func (tx *Tx) ForEach(fn func(name []byte, b *Bucket) error) error {
	return tx.root.ForEach(func(k, v []byte) error {
		return fn(k, tx.root.Bucket(k))
	})
}

type Bucket struct {
	tx *Tx
	n  *node
	// FillPercent exists on bbolt.Bucket; unused by the model.
	FillPercent float64
}

func (b *Bucket) Tx() *Tx        { return b.tx }
func (b *Bucket) Writable() bool { return b.tx.writable }
func (b *Bucket) Root() int      { return 0 }

func (b *Bucket) Cursor() *Cursor { return &Cursor{b: b} }

func (b *Bucket) Bucket(name []byte) *Bucket {
	i, ok := search(b.n.entries, name)
	if !ok || b.n.entries[i].sub == nil {
		return nil
	}
	return &Bucket{tx: b.tx, n: b.n.entries[i].sub}
}

func (b *Bucket) CreateBucket(key []byte) (*Bucket, error) {
	if b.tx.done {
		return nil, berrors.ErrTxClosed
	} else if !b.tx.writable {
		return nil, berrors.ErrTxNotWritable
	} else if len(key) == 0 {
		return nil, berrors.ErrBucketNameRequired
	}
	i, ok := search(b.n.entries, key)
	if ok {
		if b.n.entries[i].sub != nil {
			return nil, berrors.ErrBucketExists
		}
		return nil, berrors.ErrIncompatibleValue
	}
	b.n.touch()
	sub := &node{dirty: true}
	e := &entry{key: cloneBytes(key), sub: sub}
	b.n.entries = append(b.n.entries, nil)
	copy(b.n.entries[i+1:], b.n.entries[i:])
	b.n.entries[i] = e
	return &Bucket{tx: b.tx, n: sub}, nil
}

func (b *Bucket) CreateBucketIfNotExists(key []byte) (*Bucket, error) {
	child, err := b.CreateBucket(key)
	if err == berrors.ErrBucketExists {
		return b.Bucket(key), nil
	} else if err != nil {
		return nil, err
	}
	return child, nil
}

func (b *Bucket) DeleteBucket(key []byte) error {
	if b.tx.done {
		return berrors.ErrTxClosed
	} else if !b.tx.writable {
		return berrors.ErrTxNotWritable
	}
	i, ok := search(b.n.entries, key)
	if !ok {
		if len(key) == 0 && len(b.n.entries) == 0 {
			// bbolt quirk: seek on an empty bucket yields a nil key, which
			// bytes.Equal considers equal to the empty name
			return berrors.ErrIncompatibleValue
		}
		return berrors.ErrBucketNotFound
	}
	if b.n.entries[i].sub == nil {
		return berrors.ErrIncompatibleValue
	}
	b.n.touch()
	b.n.entries = append(b.n.entries[:i:i], b.n.entries[i+1:]...)
	return nil
}

func (b *Bucket) Get(key []byte) []byte {
	i, ok := search(b.n.entries, key)
	if !ok || b.n.entries[i].sub != nil {
		return nil
	}
	return b.n.entries[i].val
}

func (b *Bucket) Put(key []byte, value []byte) error {
	if b.tx.done {
		return berrors.ErrTxClosed
	} else if !b.tx.writable {
		return berrors.ErrTxNotWritable
	} else if len(key) == 0 {
		return berrors.ErrKeyRequired
	} else if len(key) > 32768 {
		return berrors.ErrKeyTooLarge
	}
	i, ok := search(b.n.entries, key)
	if ok && b.n.entries[i].sub != nil {
		return berrors.ErrIncompatibleValue
	}
	if putFault() {
		return ErrInjected
	}
	b.n.touch()
	if ok {
		// replace the entry object so that frozen images keep the old value
		b.n.entries[i] = &entry{key: b.n.entries[i].key, val: value}
		return nil
	}
	e := &entry{key: cloneBytes(key), val: value}
	b.n.entries = append(b.n.entries, nil)
	copy(b.n.entries[i+1:], b.n.entries[i:])
	b.n.entries[i] = e
	return nil
}

func (b *Bucket) Delete(key []byte) error {
	if b.tx.done {
		return berrors.ErrTxClosed
	} else if !b.tx.writable {
		return berrors.ErrTxNotWritable
	}
	i, ok := search(b.n.entries, key)
	if !ok {
		if len(key) == 0 && len(b.n.entries) == 0 {
			// same quirk: the (empty) leaf is materialised although nothing is deleted
			b.n.touch()
		}
		return nil
	}
	if b.n.entries[i].sub != nil {
		return berrors.ErrIncompatibleValue
	}
	b.n.touch()
	b.n.entries = append(b.n.entries[:i:i], b.n.entries[i+1:]...)
	return nil
}

func (b *Bucket) ForEach(fn func(k, v []byte) error) error {
	if b.tx.done {
		return berrors.ErrTxClosed
	}
	c := b.Cursor()
	for k, v := c.First(); k != nil; k, v = c.Next() {
		if err := fn(k, v); err != nil {
			return err
		}
	}
	return nil
}

func (b *Bucket) ForEachBucket(fn func(k []byte) error) error {
	if b.tx.done {
		return berrors.ErrTxClosed
	}
	c := b.Cursor()
	for k, _, isB := c.first(); k != nil; k, _, isB = c.next() {
		if isB {
			if err := fn(k); err != nil {
				return err
			}
		}
	}
	return nil
}

// Cursor: idx into either the frozen committed image (live == false) or the
// live entries of the bucket.
type Cursor struct {
	b      *Bucket
	img    []*entry
	live   bool
	idx    int
	placed bool
}

func (c *Cursor) Bucket() *Bucket { return c.b }

func (c *Cursor) position() {
	c.placed = true
	if c.b.n.dirty {
		c.live = true
		c.img = nil
	} else {
		c.live = false
		c.img = c.b.n.entries
	}
}

func (c *Cursor) elems() []*entry {
	if c.live {
		return c.b.n.entries
	}
	return c.img
}

func (c *Cursor) keyValue() ([]byte, []byte, bool) {
	es := c.elems()
	if len(es) == 0 || c.idx >= len(es) || c.idx < 0 {
		return nil, nil, false
	}
	e := es[c.idx]
	if e.sub != nil {
		return e.key, nil, true
	}
	return e.key, e.val, false
}

func (c *Cursor) first() ([]byte, []byte, bool) {
	c.position()
	c.idx = 0
	return c.keyValue()
}

func (c *Cursor) next() ([]byte, []byte, bool) {
	es := c.elems()
	if c.idx < len(es)-1 {
		c.idx++
		return c.keyValue()
	}
	return nil, nil, false
}

func (c *Cursor) First() ([]byte, []byte) {
	k, v, _ := c.first()
	return k, v
}

func (c *Cursor) Last() ([]byte, []byte) {
	c.position()
	c.idx = len(c.elems()) - 1
	k, v, _ := c.keyValue()
	return k, v
}

func (c *Cursor) Next() ([]byte, []byte) {
	if !c.placed {
		panic("mbolt: Next on an unpositioned cursor (bbolt would index an empty stack)")
	}
	k, v, _ := c.next()
	return k, v
}

func (c *Cursor) Prev() ([]byte, []byte) {
	if !c.placed {
		panic("mbolt: Prev on an unpositioned cursor (bbolt would index an empty stack)")
	}
	if c.idx > 0 {
		c.idx--
		k, v, _ := c.keyValue()
		return k, v
	}
	// bbolt: at the beginning the cursor is re-positioned on the first
	// element (cursor.first()) and nil is returned
	c.first()
	return nil, nil
}

func (c *Cursor) Seek(seek []byte) ([]byte, []byte) {
	c.position()
	i, _ := search(c.elems(), seek)
	c.idx = i
	if c.idx >= len(c.elems()) {
		return nil, nil
	}
	k, v, _ := c.keyValue()
	return k, v
}

func (c *Cursor) Delete() error {
	if c.b.tx.done {
		return berrors.ErrTxClosed
	} else if !c.b.tx.writable {
		return berrors.ErrTxNotWritable
	}
	if !c.placed {
		panic("mbolt: Delete on an unpositioned cursor")
	}
	k, _, isB := c.keyValue()
	if isB {
		return berrors.ErrIncompatibleValue
	}
	// bbolt: c.node().del(key) on the live node; a nil key deletes nothing
	// but still materialises the node
	c.b.n.touch()
	if k == nil {
		return nil
	}
	i, ok := search(c.b.n.entries, k)
	if ok && c.b.n.entries[i].sub == nil {
		c.b.n.entries = append(c.b.n.entries[:i:i], c.b.n.entries[i+1:]...)
	}
	return nil
}
