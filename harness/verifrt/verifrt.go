//go:build verif

// Package verifrt is the harness runtime of /verif. In the symbolic executor
// every function here is intercepted (inputs become solver variables, Assert
// becomes a query). Compiled natively, the same functions read a recorded
// assignment (VERIF_REPLAY) so that a solver model can be replayed against
// the real code.
package verifrt

import (
	"encoding/json"
	"fmt"
	"math"
	"os"
	"strings"
	"time"
)

type replayValue struct {
	Tag   string `json:"tag"`
	Kind  string `json:"kind"`
	U     uint64 `json:"u"`
	Bytes []int  `json:"bytes"`
}

type replayFile struct {
	Property string            `json:"property"`
	Harness  string            `json:"harness"`
	Package  string            `json:"package"`
	Tier     int               `json:"tier"`
	Label    string            `json:"label"`
	Kind     string            `json:"kind"`
	Msg      string            `json:"msg"`
	Known    []string          `json:"active_known"`
	Values   []replayValue     `json:"values"`
	Env      map[string]string `json:"env"`
}

var (
	rp       replayFile
	rpLoaded bool
	rpPos    int
	// outcome of a native run
	Failed    []string
	KnownHits []string
	Reachedl  []string
	tier      = -1
)

type divergence struct{ msg string }
type assertFailure struct{ label string }
type outsideStop struct{ what string }

func load() {
	if rpLoaded {
		return
	}
	rpLoaded = true
	p := os.Getenv("VERIF_REPLAY")
	if p == "" {
		panic(divergence{"VERIF_REPLAY not set: harness functions only run under the executor or a replay"})
	}
	b, err := os.ReadFile(p)
	if err != nil {
		panic(divergence{err.Error()})
	}
	if err := json.Unmarshal(b, &rp); err != nil {
		panic(divergence{err.Error()})
	}
}

func next(tag, kind string) replayValue {
	load()
	if rpPos >= len(rp.Values) {
		panic(divergence{fmt.Sprintf("replay exhausted at %s (%s)", tag, kind)})
	}
	v := rp.Values[rpPos]
	rpPos++
	if v.Tag != tag || v.Kind != kind {
		panic(divergence{fmt.Sprintf("replay diverged: want %s/%s got %s/%s", tag, kind, v.Tag, v.Kind)})
	}
	return v
}

// Tier is 0 for quick, 1 for thorough (concrete in both modes).
func Tier() int {
	if tier < 0 {
		tier = 0
		if os.Getenv("VERIF_TIER") == "thorough" {
			tier = 1
		}
		if os.Getenv("VERIF_REPLAY") != "" {
			load()
			tier = rp.Tier
		}
	}
	return tier
}

func Bool(tag string) bool       { return next(tag, "bool").U != 0 }
func Int64(tag string) int64     { return int64(next(tag, "int64").U) }
func Int32(tag string) int32     { return int32(next(tag, "int32").U) }
func Int(tag string) int         { return int(int64(next(tag, "int").U)) }
func Uint8(tag string) uint8     { return uint8(next(tag, "uint8").U) }
func Uint64(tag string) uint64   { return next(tag, "uint64").U }
func Float64(tag string) float64 { return math.Float64frombits(next(tag, "float64bits").U) }

// String returns a string of exactly n arbitrary bytes.
func String(tag string, n int) string {
	v := next(tag, "string")
	b := make([]byte, len(v.Bytes))
	for i, x := range v.Bytes {
		b[i] = byte(x)
	}
	if len(b) != n {
		panic(divergence{fmt.Sprintf("replay diverged: string %s length %d, want %d", tag, len(b), n)})
	}
	return string(b)
}

// Bytes returns a slice of exactly n arbitrary bytes.
func Bytes(tag string, n int) []byte {
	v := next(tag, "bytes")
	b := make([]byte, len(v.Bytes))
	for i, x := range v.Bytes {
		b[i] = byte(x)
	}
	if len(b) != n {
		panic(divergence{fmt.Sprintf("replay diverged: bytes %s length %d, want %d", tag, len(b), n)})
	}
	return b
}

// Choose returns an arbitrary value in [0,n); the executor forks on it.
func Choose(tag string, n int) int {
	v := int(int64(next(tag, "int").U))
	if v < 0 || v >= n {
		panic(divergence{fmt.Sprintf("replay diverged: choose %s=%d outside [0,%d)", tag, v, n)})
	}
	return v
}

// StringUpTo returns an arbitrary string of length 0..maxLen.
func StringUpTo(tag string, maxLen int) string {
	n := Choose(tag+".len", maxLen+1)
	return String(tag, n)
}

// Assume restricts the inputs considered; natively a replayed model must satisfy it.
func Assume(c bool) {
	if !c {
		panic(divergence{"replayed model violates an Assume"})
	}
}

// Assert states the property. The executor asks the solver for an input on
// this path that makes c false.
func Assert(c bool, label string) {
	Reachedl = append(Reachedl, label)
	if !c {
		Failed = append(Failed, label)
		panic(assertFailure{label})
	}
}

// Reach marks a location that must be reachable (vacuity guard).
func Reach(label string) { Reachedl = append(Reachedl, label) }

// Outside ends the path: the current inputs are outside the stated claim.
func Outside(what string) { panic(outsideStop{what}) }

// Symbolic reports whether the code runs under the symbolic executor.
func Symbolic() bool { return false }

// Known returns region when the known finding id is active (listed as
// status "known" in /verif/known_findings.jsonl), otherwise false.
func Known(id string, region bool) bool {
	load()
	for _, k := range rp.Known {
		if k == id {
			return region
		}
	}
	return false
}

// KnownCheck records whether a known finding still reproduces.
func KnownCheck(id string, ok bool) {
	if !ok {
		KnownHits = append(KnownHits, id)
	}
}

// Catch runs f and reports whether it panicked (and the panic text).
func Catch(f func()) (panicked bool, msg string) {
	defer func() {
		if r := recover(); r != nil {
			switch r.(type) {
			case divergence, assertFailure, outsideStop:
				panic(r)
			}
			panicked = true
			msg = fmt.Sprint(r)
		}
	}()
	f()
	return false, ""
}

func Logf(format string, args ...interface{}) {
	if os.Getenv("VERIF_VERBOSE") != "" {
		fmt.Fprintf(os.Stderr, format+"\n", args...)
	}
}

// RunNative runs one harness natively under a replay file and prints a single
// machine-readable result line. Returns the process exit code.
func RunNative(harnesses map[string]func()) int {
	name := os.Getenv("VERIF_HARNESS")
	f := harnesses[name]
	if f == nil {
		fmt.Printf("VERIF-RESULT: diverged no such harness %q\n", name)
		return 3
	}
	result := "ok"
	func() {
		defer func() {
			if r := recover(); r != nil {
				switch r := r.(type) {
				case divergence:
					result = "diverged " + r.msg
				case assertFailure:
					result = "assert-failed " + strings.ReplaceAll(r.label, "\n", " ")
				case outsideStop:
					result = "outside " + r.what
				default:
					result = "panic " + strings.ReplaceAll(fmt.Sprint(r), "\n", " ")
				}
			}
		}()
		f()
	}()
	CleanupDBs()
	for _, k := range KnownHits {
		fmt.Printf("VERIF-KNOWN-HIT: %s\n", k)
	}
	fmt.Printf("VERIF-REACHED: %s\n", strings.Join(Reachedl, ","))
	fmt.Printf("VERIF-RESULT: %s\n", result)
	if result == "ok" {
		return 0
	}
	return 1
}

// And / Or / Not / InRange: boolean combinators that the executor evaluates
// as one term (no path fork), unlike Go's && and ||.
func And(a, b bool) bool { return a && b }
func Or(a, b bool) bool  { return a || b }
func Not(a bool) bool    { return !a }

// InRange reports lo <= b <= hi.
func InRange(b, lo, hi byte) bool { return lo <= b && b <= hi }

// IteByte returns a if c else b, without forking.
func IteByte(c bool, a, b byte) byte {
	if c {
		return a
	}
	return b
}

// IteInt64 returns a if c else b, without forking.
func IteInt64(c bool, a, b int64) int64 {
	if c {
		return a
	}
	return b
}

// IteBool returns a if c else b, without forking.
func IteBool(c, a, b bool) bool {
	if c {
		return a
	}
	return b
}

// IsConcrete reports whether s has no symbolic bytes (always true natively).
func IsConcrete(s string) bool { return true }

// Settle gives goroutines started by the code under test (commit actions run
// in one) time to finish natively; under the executor they ran inline.
func Settle() { time.Sleep(30 * time.Millisecond) }

// ZonedTime: the instant sec/nsec carrying the UTC location (utc) or a fixed
// zone of off seconds.
func ZonedTime(sec, nsec int64, off int, utc bool) time.Time {
	if utc {
		return time.Unix(sec, nsec).UTC()
	}
	return time.Unix(sec, nsec).In(time.FixedZone("", off))
}

// Unsupported ends the path as inconclusive (never as a pass or a violation).
func Unsupported(what string) { panic("verif: unsupported: " + what) }

// TimeUTC: an arbitrary instant (UTC location) between year 1 and year 9999,
// nanosecond resolution.
func TimeUTC(tag string) time.Time {
	sec := Int64(tag + ".sec")
	nsec := Int64(tag + ".nsec")
	Assume(And(sec >= -62135596800, sec < 253402300800))
	Assume(And(nsec >= 0, nsec < 1000000000))
	return time.Unix(sec, nsec).UTC()
}
