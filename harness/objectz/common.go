//go:build verif

package objectz

var verifQueryFamilies []func() []string

// VerifQueries lists every concrete query string the objectz harnesses parse.
func VerifQueries() []string {
	var out []string
	for _, f := range verifQueryFamilies {
		out = append(out, f()...)
	}
	return out
}
