//go:build verif

package objectz

import (
	"time"

	"github.com/openziti/storage/ast"
	"github.com/openziti/storage/verifrt"
)

type vObj = verifrt.Row

type vSliceIter struct {
	objs []*vObj
	pos  int
}

func (it *vSliceIter) IsValid() bool { return it.pos < len(it.objs) }
func (it *vSliceIter) Next()         { it.pos++ }
func (it *vSliceIter) Current() *vObj {
	if it.pos < len(it.objs) {
		return it.objs[it.pos]
	}
	return nil
}

func verifNewObjStore(objs []*vObj) *ObjectStore[*vObj] {
	st := NewObjectStore[*vObj](func() ObjectIterator[*vObj] { return &vSliceIter{objs: objs} })
	st.AddStringSymbol("id", func(e *vObj) *string { return &e.Id })
	st.AddStringSymbol("s", func(e *vObj) *string { return e.S })
	st.AddInt64Symbol("i", func(e *vObj) *int64 { return e.I })
	st.AddFloat64Symbol("f", func(e *vObj) *float64 { return e.F })
	st.AddBoolSymbol("b", func(e *vObj) *bool { return e.B })
	st.AddBoolSymbol("m", func(e *vObj) *bool { return &e.M })
	st.AddDatetimeSymbol("t", func(e *vObj) *time.Time { return e.T })
	return st
}

// filters over non-set symbols with their meaning (appendix A.1)
type vFilter struct {
	text  string
	needs string
	match func(o *vObj) bool
}

var vFilters = []vFilter{
	{"m = true", "", func(o *vObj) bool { return o.M }},
	{"true", "", func(o *vObj) bool { return true }},
	{"s = null", "s", func(o *vObj) bool { return o.S == nil }},
	{"s != null", "s", func(o *vObj) bool { return o.S != nil }},
	{"i = null or m = true", "i", func(o *vObj) bool { return verifrt.Or(o.I == nil, o.M) }},
	{"i != null and i < 5", "i", func(o *vObj) bool {
		if o.I == nil {
			return false
		}
		return *o.I < 5
	}},
	{"b = null", "b", func(o *vObj) bool { return o.B == nil }},
	{"f != null", "f", func(o *vObj) bool { return o.F != nil }},
	{"t = null", "t", func(o *vObj) bool { return o.T == nil }},
	{"t != null and t < datetime(2020-01-02T03:04:05Z)", "t", func(o *vObj) bool {
		if o.T == nil {
			return false
		}
		return o.T.Before(vT0)
	}},
}

var vT0 = time.Date(2020, 1, 2, 3, 4, 5, 0, time.UTC)

type vSort struct {
	text   string
	fields []verifrt.SortField
}

var vSorts = []vSort{
	{"", nil},
	{" sort by id desc", []verifrt.SortField{{Field: "id", Asc: false}}},
	{" sort by s", []verifrt.SortField{{Field: "s", Asc: true}}},
	{" sort by i desc", []verifrt.SortField{{Field: "i", Asc: false}}},
	{" sort by b desc, i", []verifrt.SortField{{Field: "b", Asc: false}, {Field: "i", Asc: true}}},
	{" sort by f", []verifrt.SortField{{Field: "f", Asc: true}}},
	{" sort by t desc", []verifrt.SortField{{Field: "t", Asc: false}}},
}

func init() {
	verifQueryFamilies = append(verifQueryFamilies, func() []string {
		var qs []string
		for _, f := range vFilters {
			for _, s := range vSorts {
				qs = append(qs, f.text+s.text)
				if len(s.fields) > 0 {
					text := f.text + " sort by "
					for i, sf := range s.fields {
						if i > 0 {
							text += ", "
						}
						text += sf.Field
						if sf.Asc {
							text += " desc"
						}
					}
					qs = append(qs, text)
				}
			}
		}
		return qs
	})
}

func verifC19Objs(n int, need map[string]bool) []*vObj {
	objs := make([]*vObj, n)
	ids := []string{"a", "b", "c"}
	for r := range objs {
		o := &vObj{Id: ids[r], M: verifrt.Bool("match")}
		if need["s"] {
			if verifrt.Choose("s.nil", 2) == 1 {
				s := verifrt.StringUpTo("s", 1)
				o.S = &s
			}
		}
		if need["i"] {
			if verifrt.Choose("i.nil", 2) == 1 {
				v := verifrt.Int64("i")
				o.I = &v
			}
		}
		if need["f"] {
			if verifrt.Choose("f.nil", 2) == 1 {
				v := verifrt.Float64("f")
				verifrt.Assume(v == v)
				o.F = &v
			}
		}
		if need["b"] {
			if verifrt.Choose("b.nil", 2) == 1 {
				v := verifrt.Bool("b")
				o.B = &v
			}
		}
		if need["t"] {
			if verifrt.Choose("t.nil", 2) == 1 {
				v := verifrt.TimeUTC("t")
				o.T = &v
			}
		}
		objs[r] = o
	}
	return objs
}

// VerifC19_QueryMatchesSpec: the in-memory store answers filter + sort + skip
// + limit exactly as the reference model says - the same model the bolt-backed
// store is checked against in C02 (and, for filters, C01), so the two stores
// agree with each other.
func verifC19(filters []vFilter, sorts []vSort) {
	n := 2
	if verifrt.Tier() == 1 {
		n = 3
	}
	f := filters[verifrt.Choose("filter", len(filters))]
	s := sorts[verifrt.Choose("sort", len(sorts))]
	need := map[string]bool{f.needs: true}
	for _, sf := range s.fields {
		need[sf.Field] = true
	}
	nObjs := verifrt.Choose("objs", n+1)
	objs := verifC19Objs(nObjs, need)
	p := verifrt.SymPaging()
	st := verifNewObjStore(objs)
	q, err := ast.Parse(st, f.text+s.text)
	verifrt.Assert(err == nil, "C19 query parses: "+f.text+s.text)
	p.Apply(q)
	got, count, err := st.QueryEntitiesC(q)
	verifrt.Assert(err == nil, "C19 query runs")
	ids := make([]string, len(got))
	for i, o := range got {
		ids[i] = o.Id
	}
	match := make([]bool, len(objs))
	for i, o := range objs {
		match[i] = f.match(o)
	}
	verifrt.CheckPage(objs, match, s.fields, p, ids, count, "C19 "+f.text+s.text)
	// a second query on the SAME store object (whatever the first one left in
	// it): the same filter with the sort directions reversed, whole result
	// (quick tier only: with three objects the second query produced occasional
	// solver time-outs - the order of three symbolic keys twice over - so the
	// thorough tier keeps to one query per store object)
	if len(s.fields) > 0 && verifrt.Tier() == 0 {
		var rev []verifrt.SortField
		text := f.text + " sort by "
		for i, sf := range s.fields {
			rev = append(rev, verifrt.SortField{Field: sf.Field, Asc: !sf.Asc})
			if i > 0 {
				text += ", "
			}
			text += sf.Field
			if sf.Asc {
				text += " desc"
			}
		}
		q2, err := ast.Parse(st, text)
		verifrt.Assert(err == nil, "C19 reversed query parses: "+text)
		got2, count2, err := st.QueryEntitiesC(q2)
		verifrt.Assert(err == nil, "C19 reversed query runs")
		ids2 := make([]string, len(got2))
		for i, o := range got2 {
			ids2[i] = o.Id
		}
		verifrt.CheckPage(objs, match, rev, verifrt.Paging{}, ids2, count2, "C19 second query on the same store, directions reversed: "+f.text+s.text)
	}
}

func VerifC19_NullFilters() { verifC19(vFilters[2:], vSorts[:2]) }
func VerifC19_SortPaging()  { verifC19(vFilters[:2], vSorts) }
