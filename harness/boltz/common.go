//go:build verif

package boltz

import (
	"go.etcd.io/bbolt"

	"github.com/openziti/storage/verifrt"
)

// verifWithSetBucket stores the keys in a fresh bucket (committed) and runs fn
// in a read transaction on it.
func verifWithSetBucket(keys [][]byte, fn func(tx *bbolt.Tx, b *bbolt.Bucket)) {
	db := verifrt.OpenDB()
	err := db.Update(func(tx *bbolt.Tx) error {
		b, err := tx.CreateBucket([]byte("s"))
		if err != nil {
			return err
		}
		for _, k := range keys {
			if err := b.Put(k, nil); err != nil {
				return err
			}
		}
		return nil
	})
	verifrt.Assume(err == nil)
	_ = db.View(func(tx *bbolt.Tx) error {
		fn(tx, tx.Bucket([]byte("s")))
		return nil
	})
	_ = db.Close()
}

var verifQueryFamilies []func() []string

// VerifQueries lists every concrete query string the boltz harnesses parse.
func VerifQueries() []string {
	var out []string
	for _, f := range verifQueryFamilies {
		out = append(out, f()...)
	}
	return out
}
