//go:build verif

package boltz

import (
	"strings"
	"time"

	"go.etcd.io/bbolt"

	"github.com/openziti/storage/ast"
	"github.com/openziti/storage/verifrt"
)

// C01 through the store: entities with scalar fields, a string set, an fk to
// another entity of the same store (with back-reference set), a tag map.
const vPType = "vpeople"

type vPerson struct {
	Id    string
	S     *string
	I     *int64
	Roles []string
	Boss  *string
	Tag   interface{} // value of tags["k"]: nil (absent), string, int64 or bool
	F     *float64
	O     *bool
	D     *time.Time
	N     *int32 // stored as a 32-bit integer, queried as an int64 symbol
	// not stored: served by function symbols (boltz.NewStringFuncSymbol / NewBoolFuncSymbol)
	XS *string
	XB bool
}

func (e *vPerson) GetId() string         { return e.Id }
func (e *vPerson) SetId(id string)       { e.Id = id }
func (e *vPerson) GetEntityType() string { return vPType }

type vPersonStrategy struct{}

func (vPersonStrategy) NewEntity() *vPerson               { return new(vPerson) }
func (vPersonStrategy) FillEntity(*vPerson, *TypedBucket) {}
func (vPersonStrategy) PersistEntity(e *vPerson, ctx *PersistContext) {
	ctx.SetStringP("s", e.S)
	if e.I != nil {
		ctx.SetInt64("i", *e.I)
	}
	ctx.SetStringList("roles", e.Roles)
	ctx.SetStringP("boss", e.Boss)
	tags := map[string]interface{}{}
	if e.Tag != nil {
		tags["k"] = e.Tag
	}
	ctx.SetMap("tags", tags)
	if e.F != nil {
		ctx.Bucket.SetFloat64("f", *e.F, ctx.FieldChecker)
	}
	if e.O != nil {
		ctx.SetBool("o", *e.O)
	}
	if e.D != nil {
		ctx.SetTimeP("d", e.D)
	}
	if e.N != nil {
		ctx.SetInt32("n", *e.N)
	}
}

type vPersonStore struct {
	*BaseStore[*vPerson]
	pop *vPop // what the function symbols answer from
}

func verifNewPersonStore() *vPersonStore {
	def := StoreDefinition[*vPerson]{
		EntityType:      vPType,
		EntityStrategy:  vPersonStrategy{},
		EntityNotFoundF: func(id string) error { return NewNotFoundError(vPType, "id", id) },
		BasePath:        []string{vRootPath},
	}
	s := &vPersonStore{BaseStore: NewBaseStore(def)}
	s.InitImpl(s)
	s.AddIdSymbol("id", ast.NodeTypeString)
	s.AddSymbol("s", ast.NodeTypeString)
	s.AddSymbol("i", ast.NodeTypeInt64)
	s.AddSetSymbol("roles", ast.NodeTypeString)
	boss := s.AddFkSymbol("boss", s)
	reports := s.AddFkSetSymbol("reports", s)
	s.AddNullableFkIndex(boss, reports)
	s.AddMapSymbol("tags", ast.NodeTypeAnyType, "tags")
	s.AddSymbol("f", ast.NodeTypeFloat64)
	s.AddSymbol("o", ast.NodeTypeBool)
	s.AddSymbol("d", ast.NodeTypeDatetime)
	s.AddSymbol("n", ast.NodeTypeInt64)
	// the field s under another symbol name, plain and mapped so that null reads as ""
	s.AddSymbolWithKey("alias", ast.NodeTypeString, "s")
	s.AddSymbolWithKey("nn", ast.NodeTypeString, "s")
	s.MapSymbol("nn", NotNilStringMapper{})
	s.AddEntitySymbol(NewStringFuncSymbol(s, "xs", func(id string) *string {
		if s.pop != nil {
			if e := s.pop.byId(id); e != nil {
				return e.XS
			}
		}
		return nil
	}))
	s.AddEntitySymbol(NewBoolFuncSymbol(s, "xb", func(id string) bool {
		if s.pop != nil {
			if e := s.pop.byId(id); e != nil {
				return e.XB
			}
		}
		return false
	}))
	return s
}

type vPop struct {
	ents []*vPerson
}

func (p *vPop) byId(id string) *vPerson {
	for _, e := range p.ents {
		if e.Id == id {
			return e
		}
	}
	return nil
}

func (p *vPop) boss(e *vPerson) *vPerson {
	if e.Boss == nil {
		return nil
	}
	return p.byId(*e.Boss)
}

func (p *vPop) reports(e *vPerson) []*vPerson {
	var out []*vPerson
	for _, o := range p.ents {
		if o.Boss != nil && *o.Boss == e.Id {
			out = append(out, o)
		}
	}
	return out
}

type vSProg struct {
	text  string
	needs string // which parts of the population must be symbolic: r(oles) b(oss) s i t(ag)
	want  func(p *vPop, e *vPerson) bool
}

func anyRole(e *vPerson, f func(r string) bool) bool {
	res := false
	for _, r := range e.Roles {
		res = verifrt.Or(res, f(r))
	}
	return res
}

func allRoles(e *vPerson, f func(r string) bool) bool {
	res := true
	for _, r := range e.Roles {
		res = verifrt.And(res, f(r))
	}
	return res
}

func sEq(p *string, v string) bool { return p != nil && *p == v }

var vSProgs = []vSProg{
	// set functions over a direct set
	{`anyOf(roles) = "a"`, "r", func(p *vPop, e *vPerson) bool { return anyRole(e, func(r string) bool { return r == "a" }) }},
	{`anyOf(roles) != "a"`, "r", func(p *vPop, e *vPerson) bool { return anyRole(e, func(r string) bool { return r != "a" }) }},
	{`allOf(roles) = "a"`, "r", func(p *vPop, e *vPerson) bool { return allRoles(e, func(r string) bool { return r == "a" }) }},
	{`allOf(roles) != "a"`, "r", func(p *vPop, e *vPerson) bool { return allRoles(e, func(r string) bool { return r != "a" }) }},
	{`anyOf(roles) in ["a", "b"]`, "r", func(p *vPop, e *vPerson) bool {
		return anyRole(e, func(r string) bool { return verifrt.Or(r == "a", r == "b") })
	}},
	{`anyOf(roles) > "a"`, "r", func(p *vPop, e *vPerson) bool { return anyRole(e, func(r string) bool { return r > "a" }) }},
	{`allOf(roles) contains "a"`, "r", func(p *vPop, e *vPerson) bool {
		return allRoles(e, func(r string) bool { return strings.Contains(r, "a") })
	}},
	{`count(roles) = 1`, "r", func(p *vPop, e *vPerson) bool { return len(e.Roles) == 1 }},
	{`count(roles) > 1`, "r", func(p *vPop, e *vPerson) bool { return len(e.Roles) > 1 }},
	{`count(roles) >= 0.5`, "r", func(p *vPop, e *vPerson) bool { return len(e.Roles) >= 1 }},
	{`isEmpty(roles)`, "r", func(p *vPop, e *vPerson) bool { return len(e.Roles) == 0 }},
	{`not isEmpty(roles)`, "r", func(p *vPop, e *vPerson) bool { return len(e.Roles) != 0 }},
	// scalars through the store
	{`s = "x"`, "s", func(p *vPop, e *vPerson) bool { return sEq(e.S, "x") }},
	{`s != "x"`, "s", func(p *vPop, e *vPerson) bool { return e.S == nil || *e.S != "x" }},
	{`s = null`, "s", func(p *vPop, e *vPerson) bool { return e.S == nil }},
	{`i < 3`, "i", func(p *vPop, e *vPerson) bool { return e.I != nil && *e.I < 3 }},
	{`i >= 2.5`, "i", func(p *vPop, e *vPerson) bool { return e.I != nil && float64(*e.I) >= 2.5 }},
	{`i between 1 and 3 or s = "x"`, "si", func(p *vPop, e *vPerson) bool {
		return verifrt.Or(e.I != nil && verifrt.And(*e.I >= 1, *e.I < 3), sEq(e.S, "x"))
	}},
	// dotted symbols through an fk, and the back-reference set
	{`boss = "a"`, "b", func(p *vPop, e *vPerson) bool { return sEq(e.Boss, "a") }},
	{`boss = null`, "b", func(p *vPop, e *vPerson) bool { return e.Boss == nil }},
	{`boss.s = "x"`, "bs", func(p *vPop, e *vPerson) bool { b := p.boss(e); return b != nil && sEq(b.S, "x") }},
	{`boss.i > 3`, "bi", func(p *vPop, e *vPerson) bool { b := p.boss(e); return b != nil && b.I != nil && *b.I > 3 }},
	{`anyOf(reports) = "b"`, "b", func(p *vPop, e *vPerson) bool {
		res := false
		for _, r := range p.reports(e) {
			res = res || r.Id == "b"
		}
		return res
	}},
	{`count(reports) = 1`, "b", func(p *vPop, e *vPerson) bool { return len(p.reports(e)) == 1 }},
	{`isEmpty(reports)`, "b", func(p *vPop, e *vPerson) bool { return len(p.reports(e)) == 0 }},
	{`anyOf(reports.s) = "x"`, "bs", func(p *vPop, e *vPerson) bool {
		res := false
		for _, r := range p.reports(e) {
			res = verifrt.Or(res, sEq(r.S, "x"))
		}
		return res
	}},
	// three levels: through a set of sets (the union over all paths)
	{`anyOf(reports.reports.s) = "x"`, "bs", func(p *vPop, e *vPerson) bool {
		res := false
		for _, r1 := range p.reports(e) {
			for _, r2 := range p.reports(r1) {
				res = verifrt.Or(res, sEq(r2.S, "x"))
			}
		}
		return res
	}},
	{`allOf(reports.reports.s) = "x"`, "bs", func(p *vPop, e *vPerson) bool {
		res := true
		for _, r1 := range p.reports(e) {
			for _, r2 := range p.reports(r1) {
				res = verifrt.And(res, sEq(r2.S, "x"))
			}
		}
		return res
	}},
	{`isEmpty(reports.reports)`, "b", func(p *vPop, e *vPerson) bool {
		for _, r1 := range p.reports(e) {
			if len(p.reports(r1)) > 0 {
				return false
			}
		}
		return true
	}},
	// sub-queries
	{`isEmpty(from reports where s = "x")`, "bs", func(p *vPop, e *vPerson) bool {
		any := false
		for _, r := range p.reports(e) {
			any = verifrt.Or(any, sEq(r.S, "x"))
		}
		return verifrt.Not(any)
	}},
	{`count(from reports where i > 3) = 1`, "bi", func(p *vPop, e *vPerson) bool {
		n := int64(0)
		for _, r := range p.reports(e) {
			n += verifrt.IteInt64(r.I != nil && *r.I > 3, 1, 0)
		}
		return n == 1
	}},
	// sub-queries with their own paging: evaluated afresh for every outer row
	{`count(from reports where true limit 1) = 1`, "b", func(p *vPop, e *vPerson) bool { return len(p.reports(e)) >= 1 }},
	{`count(from reports where true skip 1) = 1`, "b", func(p *vPop, e *vPerson) bool { return len(p.reports(e)) == 2 }},
	{`not isEmpty(from reports where s = "x" limit 1)`, "bs", func(p *vPop, e *vPerson) bool {
		any := false
		for _, r := range p.reports(e) {
			any = verifrt.Or(any, sEq(r.S, "x"))
		}
		return any
	}},
	// map elements (any type): absent, string, int64 or bool value
	{`tags.k = "v"`, "t", func(p *vPop, e *vPerson) bool { s, ok := e.Tag.(string); return ok && s == "v" }},
	{`tags.k != null`, "t", func(p *vPop, e *vPerson) bool { return e.Tag != nil }},
	{`tags.k = null`, "t", func(p *vPop, e *vPerson) bool { return e.Tag == nil }},
	{`tags.k = 5`, "t", func(p *vPop, e *vPerson) bool { n, ok := e.Tag.(int64); return ok && n == 5 }},
	{`tags.k > 4`, "t", func(p *vPop, e *vPerson) bool { n, ok := e.Tag.(int64); return ok && n > 4 }},
	{`tags.k = true`, "t", func(p *vPop, e *vPerson) bool { b, ok := e.Tag.(bool); return ok && b }},
}

func init() {
	verifQueryFamilies = append(verifQueryFamilies, func() []string {
		var qs []string
		for _, p := range vSProgs {
			qs = append(qs, p.text)
		}
		return qs
	})
}

func verifSymPop(needs string, n int) *vPop {
	pop := &vPop{}
	ids := []string{"a", "b", "c"}
	for k := 0; k < n; k++ {
		e := &vPerson{Id: ids[k]}
		if strings.Contains(needs, "r") {
			// 0..2 distinct non-empty roles of one arbitrary byte... sorted listing
			rs := verifrt.SortedSet("role", 2, 1, 1)
			for _, r := range rs {
				e.Roles = append(e.Roles, string(r))
			}
		}
		if strings.Contains(needs, "s") {
			e.S = verifSymOptString("s", 1)
		}
		if strings.Contains(needs, "i") {
			e.I = verifOptInt64("i")
		}
		if strings.Contains(needs, "b") {
			// boss: nil or any of the entities (self-reference and cycles included:
			// nothing is deleted here)
			b := verifrt.Choose("boss", n+1)
			if b > 0 {
				id := ids[b-1]
				e.Boss = &id
			}
		}
		if strings.Contains(needs, "f") {
			e.F = verifOptFloat64("f")
		}
		if strings.Contains(needs, "o") {
			e.O = verifOptBool("o")
		}
		if strings.Contains(needs, "x") {
			e.XS = verifSymOptString("xs", 1)
			e.XB = verifrt.Bool("xb")
		}
		if strings.Contains(needs, "n") && verifrt.Choose("n.nil", 2) == 1 {
			v := verifrt.Int32("n")
			e.N = &v
		}
		if strings.Contains(needs, "d") && verifrt.Choose("d.nil", 2) == 1 {
			v := verifrt.TimeUTC("d")
			e.D = &v
		}
		if strings.Contains(needs, "t") {
			switch verifrt.Choose("tag.kind", 4) {
			case 1:
				e.Tag = verifrt.StringUpTo("tag.s", 1)
			case 2:
				e.Tag = verifrt.Int64("tag.i")
			case 3:
				e.Tag = verifrt.Bool("tag.b")
			}
		}
		pop.ents = append(pop.ents, e)
	}
	return pop
}

// VerifC01_QueryThroughStore: QueryIds returns exactly the entities that
// satisfy the filter, in id order, for every population within the bounds.
func verifC01Store(progs []vSProg) {
	n := 2
	if verifrt.Tier() == 1 {
		n = 3
	}
	p := progs[verifrt.Choose("program", len(progs))]
	env := verifNewEnv(vStoreCfg{nickNullable: true})
	defer env.close()
	store := verifNewPersonStore()
	pop := verifSymPop(p.needs, n)
	store.pop = pop
	// create without references first, then set the references (any graph)
	err := env.update(func(ctx MutateContext) error {
		for _, e := range pop.ents {
			c := *e
			c.Boss = nil
			if err := store.Create(ctx, &c); err != nil {
				return err
			}
		}
		for _, e := range pop.ents {
			if e.Boss != nil {
				if err := store.Update(ctx, e, nil); err != nil {
					return err
				}
			}
		}
		return nil
	})
	verifrt.Assert(err == nil, "C01 population setup succeeds")
	env.view(func(tx *bbolt.Tx) {
		ids, count, err := store.QueryIds(tx, p.text)
		verifrt.Assert(err == nil, "C01 query runs: "+p.text)
		ok := true
		nWant := int64(0)
		for _, e := range pop.ents {
			in := false
			for _, id := range ids {
				in = in || id == e.Id
			}
			w := p.want(pop, e)
			ok = verifrt.And(ok, in == w)
			nWant += verifrt.IteInt64(w, 1, 0)
		}
		verifrt.Assert(ok, "C01 the query returns exactly the satisfying entities: "+p.text)
		verifrt.Assert(verifrt.And(count == nWant, int64(len(ids)) == nWant), "C01 no entity is returned twice and the count matches: "+p.text)
		// cursor-style evaluation of the same filter
		if parsed, perr := ast.Parse(store, p.text); perr == nil {
			var it []string
			for c := store.IterateIds(tx, parsed); c.IsValid(); c.Next() {
				it = append(it, string(c.Current()))
			}
			verifrt.Assert(verifSameStrings(it, ids), "C01 IterateIds yields the same entities as QueryIds: "+p.text)
		}
	})
}

func VerifC01_SetFunctions() { verifC01Store(vSProgs[:12]) }
func VerifC01_StoreScalarsAndLinks() {
	verifC01Store(vSProgs[12:31])
}
func VerifC01_MapElements() { verifC01Store(vSProgs[31:]) }

// float, bool and datetime fields through the store (typed bucket decoding,
// row cursor evaluation, dotted access), datetimes arbitrary instants
var (
	vD0 = time.Date(2020, 1, 2, 3, 4, 5, 0, time.UTC)
	vD1 = time.Date(2021, 1, 2, 3, 4, 5, 0, time.UTC)
)

const (
	vD0s    = "datetime(2020-01-02T03:04:05Z)"
	vD0zone = "datetime(2020-01-02T05:04:05+02:00)"
	vD1s    = "datetime(2021-01-02T03:04:05Z)"
)

var vSProgs2 = []vSProg{
	{`f > 1.5`, "f", func(p *vPop, e *vPerson) bool { return e.F != nil && *e.F > 1.5 }},
	{`f = 2`, "f", func(p *vPop, e *vPerson) bool { return e.F != nil && *e.F == 2 }},
	{`f != 2`, "f", func(p *vPop, e *vPerson) bool { return e.F == nil || *e.F != 2 }},
	{`f between 1 and 2`, "f", func(p *vPop, e *vPerson) bool { return e.F != nil && verifrt.And(*e.F >= 1, *e.F < 2) }},
	{`f in [1.5, 2]`, "f", func(p *vPop, e *vPerson) bool { return e.F != nil && verifrt.Or(*e.F == 1.5, *e.F == 2) }},
	{`f = null`, "f", func(p *vPop, e *vPerson) bool { return e.F == nil }},
	{`n < 0`, "n", func(p *vPop, e *vPerson) bool { return e.N != nil && *e.N < 0 }},
	{`n = -1`, "n", func(p *vPop, e *vPerson) bool { return e.N != nil && *e.N == -1 }},
	{`n >= 5.5`, "n", func(p *vPop, e *vPerson) bool { return e.N != nil && *e.N >= 6 }},
	{`n in [-2147483648, 2147483647]`, "n", func(p *vPop, e *vPerson) bool {
		return e.N != nil && verifrt.Or(*e.N == -2147483648, *e.N == 2147483647)
	}},
	{`xs = "v"`, "x", func(p *vPop, e *vPerson) bool { return sEq(e.XS, "v") }},
	{`xs != "v"`, "x", func(p *vPop, e *vPerson) bool { return e.XS == nil || *e.XS != "v" }},
	{`xs contains "v" or xb = true`, "x", func(p *vPop, e *vPerson) bool {
		return verifrt.Or(e.XS != nil && strings.Contains(*e.XS, "v"), e.XB)
	}},
	{`xb != true`, "x", func(p *vPop, e *vPerson) bool { return !e.XB }},
	{`xs != null`, "x", func(p *vPop, e *vPerson) bool { return e.XS != nil }},
	{`xs = null`, "x", func(p *vPop, e *vPerson) bool { return e.XS == nil }},
	{`xs = ""`, "x", func(p *vPop, e *vPerson) bool { return sEq(e.XS, "") }},
	{`alias = "x"`, "s", func(p *vPop, e *vPerson) bool { return sEq(e.S, "x") }},
	{`alias = null`, "s", func(p *vPop, e *vPerson) bool { return e.S == nil }},
	{`nn = ""`, "s", func(p *vPop, e *vPerson) bool { return e.S == nil || *e.S == "" }},
	{`nn != null`, "s", func(p *vPop, e *vPerson) bool { return true }},
	{`nn < "y"`, "s", func(p *vPop, e *vPerson) bool { return e.S == nil || *e.S < "y" }},
	{`o = true`, "o", func(p *vPop, e *vPerson) bool { return e.O != nil && *e.O }},
	{`o != true`, "o", func(p *vPop, e *vPerson) bool { return e.O == nil || !*e.O }},
	{`o != null`, "o", func(p *vPop, e *vPerson) bool { return e.O != nil }},
	{`d < ` + vD0s, "d", func(p *vPop, e *vPerson) bool { return e.D != nil && e.D.Before(vD0) }},
	{`d >= ` + vD0zone, "d", func(p *vPop, e *vPerson) bool { return e.D != nil && !e.D.Before(vD0) }},
	{`d = ` + vD0zone, "d", func(p *vPop, e *vPerson) bool { return e.D != nil && e.D.Equal(vD0) }},
	{`d != ` + vD0s, "d", func(p *vPop, e *vPerson) bool { return e.D == nil || !e.D.Equal(vD0) }},
	{`d between ` + vD0s + ` and ` + vD1s, "d", func(p *vPop, e *vPerson) bool {
		return e.D != nil && !e.D.Before(vD0) && e.D.Before(vD1)
	}},
	{`d in [` + vD0zone + `, ` + vD1s + `]`, "d", func(p *vPop, e *vPerson) bool {
		return e.D != nil && (e.D.Equal(vD0) || e.D.Equal(vD1))
	}},
	{`d = null`, "d", func(p *vPop, e *vPerson) bool { return e.D == nil }},
	{`boss.d < ` + vD0s, "bd", func(p *vPop, e *vPerson) bool {
		b := p.boss(e)
		return b != nil && b.D != nil && b.D.Before(vD0)
	}},
	{`anyOf(reports.f) > 1.5`, "bf", func(p *vPop, e *vPerson) bool {
		res := false
		for _, r := range p.reports(e) {
			if r.F != nil {
				res = verifrt.Or(res, *r.F > 1.5)
			}
		}
		return res
	}},
}

func init() {
	verifQueryFamilies = append(verifQueryFamilies, func() []string {
		var qs []string
		for _, p := range vSProgs2 {
			qs = append(qs, p.text)
		}
		return qs
	})
}

func VerifC01_StoreFloatBoolDatetime() { verifC01Store(vSProgs2) }
