//go:build verif

package boltz

import (
	"bytes"
	"errors"

	"go.etcd.io/bbolt"

	"github.com/openziti/storage/verifrt"
)

type vSpec struct {
	slots [3]vSlot
}

// Which field family is symbolic in a harness. The three index kinds are
// independent constraints, so each gets its own harness; the fields outside
// the focus hold fixed, valid, per-slot-distinct values (the store is always
// wired with all three indexes).
const (
	vFocusName = iota
	vFocusNick
	vFocusRoles
)

// verifSymSlotFields: arbitrary field values for a create / update argument of
// slot j. In focus: name "" or one arbitrary byte; nick nil, "" or one
// arbitrary byte; roles any subset of {r1,r2}.
func verifSymSlotFields(tag string, focus int, j int, cfg vStoreCfg) vSlot {
	s := vSlot{present: true}
	s.name = "N" + vIds[j]
	if !cfg.nickNullable {
		k := "K" + vIds[j]
		s.nick = &k
	}
	switch focus {
	case vFocusName:
		s.name = verifrt.StringUpTo(tag+".name", 1)
	case vFocusNick:
		s.nick = verifSymOptString(tag+".nick", 1)
	case vFocusRoles:
		s.roles[0] = verifrt.Choose(tag+".r1", 2) == 1
		s.roles[1] = verifrt.Choose(tag+".r2", 2) == 1
	}
	return s
}

// uniqueness conflicts of candidate fields against the other present slots
func (sp *vSpec) nameTaken(name string, except int) bool {
	t := false
	for i := range sp.slots {
		if i != except && sp.slots[i].present {
			t = verifrt.Or(t, sp.slots[i].name == name)
		}
	}
	return t
}

func (sp *vSpec) nickTaken(nick string, except int) bool {
	t := false
	for i := range sp.slots {
		if i != except && sp.slots[i].present && sp.slots[i].nick != nil {
			t = verifrt.Or(t, *sp.slots[i].nick == nick)
		}
	}
	return t
}

// verifSymSpecC03 returns an arbitrary *valid* abstract state: every state the
// API can reach with <= 3 entities over these value bounds.
func verifSymSpecC03(cfg vStoreCfg, focus, nSlots int) *vSpec {
	sp := &vSpec{}
	for i := 0; i < nSlots; i++ {
		if verifrt.Choose("present", 2) == 0 {
			continue
		}
		s := verifSymSlotFields("s", focus, i, cfg)
		verifrt.Assume(len(s.name) > 0)
		verifrt.Assume(!sp.nameTaken(s.name, i))
		if s.nick == nil || len(*s.nick) == 0 {
			verifrt.Assume(cfg.nickNullable)
		} else {
			verifrt.Assume(!sp.nickTaken(*s.nick, i))
		}
		sp.slots[i] = s
	}
	return sp
}

func (env *vEnv) build(sp *vSpec) {
	err := env.update(func(ctx MutateContext) error {
		for i := range sp.slots {
			if sp.slots[i].present {
				if err := env.emp.Create(ctx, sp.slots[i].entity(vIds[i])); err != nil {
					return err
				}
			}
		}
		return nil
	})
	verifrt.Assert(err == nil, "C03 creating a valid population succeeds")
}

// accepts: would the fields be accepted for slot j (uniqueness / nullability)?
// dup reports that the rejection is a uniqueness conflict.
func (sp *vSpec) accepts(cfg vStoreCfg, f vSlot, j int) (ok bool, dup bool) {
	if len(f.name) == 0 {
		return false, false
	}
	if sp.nameTaken(f.name, j) {
		// symbolic: fork here (reference model only)
		return false, true
	}
	if f.nick == nil || len(*f.nick) == 0 {
		if !cfg.nickNullable {
			return false, false
		}
		return true, false
	}
	if sp.nickTaken(*f.nick, j) {
		return false, true
	}
	return true, false
}

// verifCheckIndexesC03: the index buckets hold exactly what the abstract
// state says (read through the raw bucket API, not through the index code).
func (env *vEnv) checkStateC03(sp *vSpec, label string) {
	env.view(func(tx *bbolt.Tx) {
		// entities
		for i := range sp.slots {
			e, found, err := env.emp.FindById(tx, vIds[i])
			verifrt.Assert(err == nil, label+": FindById has no error")
			verifrt.Assert(found == sp.slots[i].present, label+": entity present iff the spec says so")
			if found && sp.slots[i].present {
				s := &sp.slots[i]
				ok := e.Name == s.name
				if s.nick == nil {
					ok = verifrt.And(ok, e.Nick == nil)
				} else {
					ok = verifrt.And(ok, e.Nick != nil && *e.Nick == *s.nick)
				}
				want := s.roleList()
				ok = verifrt.And(ok, len(e.Roles) == len(want))
				if len(e.Roles) == len(want) {
					for k := range want {
						ok = verifrt.And(ok, e.Roles[k] == want[k])
					}
				}
				verifrt.Logf("slot %v: name=%q/%q nick nil=%v/%v roles=%v/%v", i, e.Name, s.name, e.Nick == nil, s.nick == nil, e.Roles, want)
				verifrt.Assert(ok, label+": stored fields equal the spec")
			}
		}
		// unique index on name: exactly {name -> id}
		// (the index buckets are named after the symbols, which a keyed store names unlike the fields)
		nameIdx := Path(tx, vRootPath, IndexesBucket, vEmpType, env.emp.symName.GetName())
		nickIdx := Path(tx, vRootPath, IndexesBucket, vEmpType, env.emp.symNick.GetName())
		verifrt.Assert(nameIdx != nil && nickIdx != nil, label+": unique index buckets exist")
		wantNames, wantNicks := 0, 0
		ok := true
		for i := range sp.slots {
			s := &sp.slots[i]
			if !s.present {
				continue
			}
			wantNames++
			ok = verifrt.And(ok, bytes.Equal(nameIdx.Get([]byte(s.name)), []byte(vIds[i])))
			if s.nick != nil && len(*s.nick) > 0 {
				wantNicks++
				ok = verifrt.And(ok, bytes.Equal(nickIdx.Get([]byte(*s.nick)), []byte(vIds[i])))
			}
		}
		verifrt.Assert(ok, label+": unique index maps each held value to its holder")
		verifrt.Assert(verifCountKeys(nameIdx.Bucket) == wantNames, label+": unique index (name) has no stale or extra entries")
		verifrt.Assert(verifCountKeys(nickIdx.Bucket) == wantNicks, label+": unique index (nick) has no stale or extra entries")
		// set index on roles: value -> exactly the holders; no empty keys
		rolesIdx := Path(tx, vRootPath, IndexesBucket, vEmpType, vFRoles)
		verifrt.Assert(rolesIdx != nil, label+": set index bucket exists")
		wantKeys := 0
		for r, rn := range vRoleNames {
			var holders []string
			for i := range sp.slots {
				if sp.slots[i].present && sp.slots[i].roles[r] {
					holders = append(holders, vIds[i])
				}
			}
			sub := rolesIdx.Bucket.Bucket([]byte(rn))
			if len(holders) == 0 {
				verifrt.Assert(sub == nil, label+": no empty set-index key left behind")
				continue
			}
			wantKeys++
			verifrt.Assert(sub != nil, label+": set index has a key for a held value")
			if sub != nil {
				okh := true
				for _, h := range holders {
					okh = verifrt.And(okh, sub.Get(PrependFieldType(TypeString, []byte(h))) != nil)
				}
				verifrt.Assert(okh, label+": set index lists every holder")
				verifrt.Assert(verifCountKeys(sub) == len(holders), label+": set index lists only current holders")
			}
		}
		verifrt.Assert(verifCountKeys(rolesIdx.Bucket) == wantKeys, label+": set index has no keys for unheld values")
		// the same through the read-index API
		for i := range sp.slots {
			s := &sp.slots[i]
			if s.present && len(s.name) > 0 {
				verifrt.Assert(bytes.Equal(env.emp.idxName.Read(tx, []byte(s.name)), []byte(vIds[i])), label+": ReadIndex.Read maps the held value to its holder")
			}
		}
		nKeys := 0
		env.emp.idxRoles.ReadKeys(tx, func([]byte) { nKeys++ })
		verifrt.Assert(nKeys == wantKeys, label+": SetReadIndex.ReadKeys lists exactly the held values")
		for r, rn := range vRoleNames {
			nHolders, wantHolders := 0, 0
			for i := range sp.slots {
				if sp.slots[i].present && sp.slots[i].roles[r] {
					wantHolders++
				}
			}
			env.emp.idxRoles.Read(tx, []byte(rn), func([]byte) { nHolders++ })
			verifrt.Assert(nHolders == wantHolders, label+": SetReadIndex.Read lists exactly the holders of a value")
		}
	})
}

func verifCountKeys(b *bbolt.Bucket) int {
	n := 0
	c := b.Cursor()
	for k, _ := c.First(); k != nil; k, _ = c.Next() {
		n++
	}
	return n
}

func verifC03Step(cfg vStoreCfg, focus int) {
	nSlots := 2
	if verifrt.Tier() == 1 {
		nSlots = 3
	}
	env := verifNewEnv(cfg)
	defer env.close()
	sp := verifSymSpecC03(cfg, focus, nSlots)
	env.build(sp)
	env.checkStateC03(sp, "C03 after build")
	// thorough: a second operation from the state the first one left (states
	// that only a history of updates / deletes produces, e.g. a field rewritten
	// to null rather than never written); quick: the single inductive step
	if verifrt.Tier() == 1 && nSlots == 3 {
		nSlots = 2 // the two-step history runs over two slots
	}
	steps := 1
	if verifrt.Tier() == 1 {
		steps = 2
	}
	for step := 0; step < steps; step++ {
		next, changed := verifC03One(env, cfg, focus, sp, nSlots)
		if !changed {
			return
		}
		sp = next
	}
}

// verifC03One performs one symbolic operation from state sp and checks the
// result; it returns the successor state (false if the operation was rejected).
func verifC03One(env *vEnv, cfg vStoreCfg, focus int, sp *vSpec, nSlots int) (*vSpec, bool) {
	j := verifrt.Choose("slot", nSlots)
	op := verifrt.Choose("op", 4)
	next := *sp
	var err error
	accept, dup, notFound := true, false, false
	switch op {
	case 0: // create
		f := verifSymSlotFields("n", focus, j, cfg)
		if sp.slots[j].present {
			accept = false
		} else {
			accept, dup = sp.accepts(cfg, f, j)
		}
		if accept {
			next.slots[j] = f
		}
		err = env.update(func(ctx MutateContext) error { return env.emp.Create(ctx, f.entity(vIds[j])) })
	case 1, 2: // full update / field-restricted update
		f := verifSymSlotFields("n", focus, j, cfg)
		var checker FieldChecker
		merged := f
		if op == 2 {
			m := MapFieldChecker{}
			cur := sp.slots[j]
			// the focus field is selected or not (symbolic); one other field is
			// always selected, one never, so that "touches only selected
			// fields" is exercised in both directions
			sel := verifrt.Choose("chk.focus", 2) == 1
			switch focus {
			case vFocusName:
				if sel {
					m[vFName] = struct{}{}
				} else {
					merged.name = cur.name
				}
				m[vFRoles] = struct{}{}
				merged.nick = cur.nick
			case vFocusNick:
				if sel {
					m[vFNick] = struct{}{}
				} else {
					merged.nick = cur.nick
				}
				m[vFName] = struct{}{}
				merged.roles = cur.roles
			case vFocusRoles:
				if sel {
					m[vFRoles] = struct{}{}
				} else {
					merged.roles = cur.roles
				}
				m[vFNick] = struct{}{}
				merged.name = cur.name
			}
			checker = m
		}
		if !sp.slots[j].present {
			accept, notFound = false, true
		} else {
			accept, dup = sp.accepts(cfg, merged, j)
		}
		if accept {
			next.slots[j] = merged
		}
		err = env.update(func(ctx MutateContext) error { return env.emp.Update(ctx, f.entity(vIds[j]), checker) })
	case 3: // delete
		if !sp.slots[j].present {
			accept, notFound = false, true
		} else {
			next.slots[j] = vSlot{}
		}
		err = env.update(func(ctx MutateContext) error { return env.emp.DeleteById(ctx, vIds[j]) })
	}
	verifrt.Assert((err == nil) == accept, "C03 operation accepted iff the reference model accepts it")
	if err != nil {
		if dup {
			var de *UniqueIndexDuplicateError
			verifrt.Assert(errors.As(err, &de), "C03 duplicate value reported as UniqueIndexDuplicateError")
		}
		if notFound {
			verifrt.Assert(IsErrNotFoundErr(err), "C03 missing entity reported as not found")
		}
		env.checkStateC03(sp, "C03 after a rejected operation (unchanged)")
		return sp, false
	}
	env.checkStateC03(&next, "C03 after the operation")
	return &next, true
}

func VerifC03_UniqueName()         { verifC03Step(vStoreCfg{nickNullable: true}, vFocusName) }
func VerifC03_NullableUniqueNick() { verifC03Step(vStoreCfg{nickNullable: true}, vFocusNick) }
func VerifC03_NonNullUniqueNick()  { verifC03Step(vStoreCfg{nickNullable: false}, vFocusNick) }
func VerifC03_SetIndexRoles()      { verifC03Step(vStoreCfg{nickNullable: true}, vFocusRoles) }

// The same steps on a store whose indexed symbols are named unlike the fields
// they are stored under (AddSymbolWithKey): symbol name and field name are two
// different keys into everything that is looked up by name (field checkers).
func VerifC03_KeyedSymbolUniqueName() {
	verifC03Step(vStoreCfg{nickNullable: true, symKeyed: true}, vFocusName)
}
func VerifC03_KeyedSymbolNullableNick() {
	verifC03Step(vStoreCfg{nickNullable: true, symKeyed: true}, vFocusNick)
}

// VerifC03_IndexesFollowChildEntities: the parent's indexes are maintained by
// the same constraints when the entity is a child-store entity, for which the
// store runs the constraint chain of both stores: a manager (child data) and a
// plain emp hold arbitrary role sets; the manager is deleted or its roles are
// rewritten, through either store; the set and unique indexes equal the spec.
func VerifC03_IndexesFollowChildEntities() {
	cfg := vStoreCfg{nickNullable: true}
	env := verifNewEnv(cfg)
	defer env.close()
	mgr := verifNewMgrStore(env.emp, false)
	sp := &vSpec{}
	for i := 0; i < 2; i++ {
		sp.slots[i] = vSlot{present: true, name: "N" + vIds[i], roles: [2]bool{verifrt.Bool("r1"), verifrt.Bool("r2")}}
	}
	err := env.update(func(ctx MutateContext) error {
		if err := mgr.Create(ctx, &vMgr{vEmp: *sp.slots[0].entity(vIds[0]), Lead: true}); err != nil {
			return err
		}
		return env.emp.Create(ctx, sp.slots[1].entity(vIds[1]))
	})
	verifrt.Assert(err == nil, "C03 child-entity population setup succeeds")
	env.checkStateC03(sp, "C03 child entity after build")
	next := *sp
	op := verifrt.Choose("op", 4)
	switch op {
	case 0, 1:
		next.slots[0] = vSlot{}
		err = env.update(func(ctx MutateContext) error {
			if op == 0 {
				return env.emp.DeleteById(ctx, vIds[0])
			}
			return mgr.DeleteById(ctx, vIds[0])
		})
	case 2, 3:
		next.slots[0].roles = [2]bool{verifrt.Bool("new.r1"), verifrt.Bool("new.r2")}
		ent := next.slots[0].entity(vIds[0])
		err = env.update(func(ctx MutateContext) error {
			if op == 2 {
				return env.emp.Update(ctx, ent, nil)
			}
			return mgr.Update(ctx, &vMgr{vEmp: *ent, Lead: true}, nil)
		})
	}
	verifrt.Assert(err == nil, "C03 deleting / updating a child entity succeeds")
	env.checkStateC03(&next, "C03 child entity after the operation")
}

// VerifC03_SeveralOpsPerTransaction: two operations in ONE transaction over two
// slots (create / full update / delete, symbolic slot and symbolic unique
// name): the second operation sees the first one's index changes (value reuse
// after delete and value swaps inside a transaction); if either is rejected the
// transaction is rolled back as a whole. Afterwards entities and indexes equal
// the model's state.
func VerifC03_SeveralOpsPerTransaction() {
	cfg := vStoreCfg{nickNullable: true}
	nSlots := 2
	env := verifNewEnv(cfg)
	defer env.close()
	sp := verifSymSpecC03(cfg, vFocusName, nSlots)
	env.build(sp)
	type txOp struct {
		kind, slot int
		f          vSlot
	}
	nOps := 2
	if verifrt.Tier() == 1 {
		nOps = 3
	}
	ops := make([]txOp, nOps)
	for k := range ops {
		ops[k].kind = verifrt.Choose("op", 3)
		ops[k].slot = verifrt.Choose("slot", nSlots)
		if ops[k].kind != 2 {
			ops[k].f = verifSymSlotFields("n", vFocusName, ops[k].slot, cfg)
		}
	}
	cur := *sp
	accept := true
	for _, op := range ops {
		j := op.slot
		switch op.kind {
		case 0:
			ok := false
			if !cur.slots[j].present {
				ok, _ = cur.accepts(cfg, op.f, j)
			}
			if ok {
				cur.slots[j] = op.f
			} else {
				accept = false
			}
		case 1:
			ok := false
			if cur.slots[j].present {
				ok, _ = cur.accepts(cfg, op.f, j)
			}
			if ok {
				cur.slots[j] = op.f
			} else {
				accept = false
			}
		case 2:
			if cur.slots[j].present {
				cur.slots[j] = vSlot{}
			} else {
				accept = false
			}
		}
		if !accept {
			break
		}
	}
	err := env.update(func(ctx MutateContext) error {
		for _, op := range ops {
			var err error
			switch op.kind {
			case 0:
				err = env.emp.Create(ctx, op.f.entity(vIds[op.slot]))
			case 1:
				err = env.emp.Update(ctx, op.f.entity(vIds[op.slot]), nil)
			case 2:
				err = env.emp.DeleteById(ctx, vIds[op.slot])
			}
			if err != nil {
				return err
			}
		}
		return nil
	})
	verifrt.Assert((err == nil) == accept, "C03 a transaction of several operations is accepted iff the model accepts each in turn")
	if err != nil {
		env.checkStateC03(sp, "C03 after a rejected transaction (unchanged)")
		return
	}
	env.checkStateC03(&cur, "C03 after a transaction of several operations")
}
