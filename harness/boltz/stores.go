//go:build verif

package boltz

import (
	"context"

	"go.etcd.io/bbolt"

	"github.com/openziti/storage/ast"
	"github.com/openziti/storage/verifrt"
)

// ---- harness schema: one "emp" store with a unique name, a nullable unique
// nick, a set-indexed roles field and an fk to another emp (boss) ----

const (
	vEmpType  = "vemps"
	vFName    = "name"
	vFNick    = "nick"
	vFRoles   = "roles"
	vFBoss    = "boss"
	vFReports = "reports"
	vFTitle   = "title"
	vRootPath = "vroot"
)

type vEmp struct {
	Id    string
	Name  string
	Nick  *string
	Roles []string
	Boss  *string
	Title *string // optional; when given it must be non-empty (SetRequiredString)
	// optional: when non-nil the entity's links to depts are managed through
	// entity persistence (PersistContext.SetLinkedIds -> LinkCollection.SetLinks)
	DeptIds *[]string
}

func (e *vEmp) GetId() string         { return e.Id }
func (e *vEmp) SetId(id string)       { e.Id = id }
func (e *vEmp) GetEntityType() string { return vEmpType }

type vEmpStrategy struct{}

func (vEmpStrategy) NewEntity() *vEmp { return new(vEmp) }

func (vEmpStrategy) FillEntity(e *vEmp, b *TypedBucket) {
	e.Name = b.GetStringOrError(vFName)
	e.Nick = b.GetString(vFNick)
	e.Roles = b.GetStringList(vFRoles)
	e.Boss = b.GetString(vFBoss)
	e.Title = b.GetString(vFTitle)
}

func (vEmpStrategy) PersistEntity(e *vEmp, ctx *PersistContext) {
	if e.Title != nil {
		// validated by the setter itself: the rejection travels through the
		// bucket's error holder while later fields are still being persisted
		ctx.SetRequiredString(vFTitle, *e.Title)
	}
	ctx.SetString(vFName, e.Name)
	ctx.SetStringP(vFNick, e.Nick)
	ctx.SetStringList(vFRoles, e.Roles)
	ctx.SetStringP(vFBoss, e.Boss)
	if e.DeptIds != nil {
		ctx.SetLinkedIds(vFDepts, *e.DeptIds)
	}
}

type vEmpStore struct {
	*BaseStore[*vEmp]
	symDepts, symRcDepts      EntitySetSymbol
	depts                     LinkCollection
	rcDepts                   RefCountedLinkCollection
	symName, symNick, symBoss EntitySymbol
	symRoles, symReports      EntitySetSymbol
	idxName, idxNick          ReadIndex
	idxRoles                  SetReadIndex
}

// fk wiring of the boss field
const (
	vFkNone = iota
	vFkIndexNullable
	vFkIndexNonNull
	vFkIndexCascade
	vFkConstraintRestrict
	vFkConstraintCascade
)

type vStoreCfg struct {
	nickNullable bool
	fk           int
	// fkToDept: boss references a second store ("vdepts") instead of vemps
	fkToDept bool
	// fkKeyed: the fk symbol's name ("bossref") differs from the key it is stored under ("boss")
	fkKeyed bool
	// symKeyed: the symbols of the unique indexes are named unlike the fields
	// they are stored under ("displayName" -> name, "alias" -> nick); field
	// checkers keep naming the stored fields
	symKeyed bool
	// links: emp.depts <-> dept.members (link collection) and
	// emp.rcdepts <-> dept.rcmembers (ref-counted link collection)
	links bool
}

// ---- target store for foreign keys ----

const (
	vDeptType = "vdepts"
	vFLabel   = "label"
	vFEmps    = "emps"
)

type vDept struct {
	Id    string
	Label string
}

func (e *vDept) GetId() string         { return e.Id }
func (e *vDept) SetId(id string)       { e.Id = id }
func (e *vDept) GetEntityType() string { return vDeptType }

type vDeptStrategy struct{}

func (vDeptStrategy) NewEntity() *vDept { return new(vDept) }
func (vDeptStrategy) FillEntity(e *vDept, b *TypedBucket) {
	e.Label = b.GetStringOrError(vFLabel)
}
func (vDeptStrategy) PersistEntity(e *vDept, ctx *PersistContext) {
	ctx.SetString(vFLabel, e.Label)
}

type vDeptStore struct {
	*BaseStore[*vDept]
	symEmps                  EntitySetSymbol
	symMembers, symRcMembers EntitySetSymbol
	members                  LinkCollection
	rcMembers                RefCountedLinkCollection
}

const (
	vFDepts     = "depts"
	vFMembers   = "members"
	vFRcDepts   = "rcdepts"
	vFRcMembers = "rcmembers"
)

func verifNewDeptStore() *vDeptStore {
	def := StoreDefinition[*vDept]{
		EntityType:      vDeptType,
		EntityStrategy:  vDeptStrategy{},
		EntityNotFoundF: func(id string) error { return NewNotFoundError(vDeptType, "id", id) },
		BasePath:        []string{vRootPath},
	}
	s := &vDeptStore{BaseStore: NewBaseStore(def)}
	s.InitImpl(s)
	s.AddIdSymbol("id", ast.NodeTypeString)
	s.AddSymbol(vFLabel, ast.NodeTypeString)
	return s
}

func verifNewEmpStore(cfg vStoreCfg, dept *vDeptStore) *vEmpStore {
	def := StoreDefinition[*vEmp]{
		EntityType:      vEmpType,
		EntityStrategy:  vEmpStrategy{},
		EntityNotFoundF: func(id string) error { return NewNotFoundError(vEmpType, "id", id) },
		BasePath:        []string{vRootPath},
	}
	s := &vEmpStore{BaseStore: NewBaseStore(def)}
	s.InitImpl(s)
	s.AddIdSymbol("id", ast.NodeTypeString)
	if cfg.symKeyed {
		s.symName = s.AddSymbolWithKey("displayName", ast.NodeTypeString, vFName)
		s.symNick = s.AddSymbolWithKey("alias", ast.NodeTypeString, vFNick)
	} else {
		s.symName = s.AddSymbol(vFName, ast.NodeTypeString)
		s.symNick = s.AddSymbol(vFNick, ast.NodeTypeString)
	}
	s.idxName = s.AddUniqueIndex(s.symName)
	if cfg.nickNullable {
		s.idxNick = s.AddNullableUniqueIndex(s.symNick)
	} else {
		s.idxNick = s.AddUniqueIndex(s.symNick)
	}
	s.symRoles = s.AddSetSymbol(vFRoles, ast.NodeTypeString)
	s.idxRoles = s.AddSetIndex(s.symRoles)
	if cfg.fkToDept && cfg.fkKeyed {
		s.symBoss = s.AddFkSymbolWithKey("bossref", vFBoss, dept)
		dept.symEmps = dept.AddFkSetSymbol(vFEmps, s)
		s.symReports = dept.symEmps
	} else if cfg.fkToDept {
		s.symBoss = s.AddFkSymbol(vFBoss, dept)
		dept.symEmps = dept.AddFkSetSymbol(vFEmps, s)
		s.symReports = dept.symEmps
	} else {
		s.symBoss = s.AddFkSymbol(vFBoss, s)
		s.symReports = s.AddFkSetSymbol(vFReports, s)
	}
	if cfg.links {
		s.symDepts = s.AddFkSetSymbol(vFDepts, dept)
		dept.symMembers = dept.AddFkSetSymbol(vFMembers, s)
		s.depts = s.AddLinkCollection(s.symDepts, dept.symMembers)
		dept.members = dept.AddLinkCollection(dept.symMembers, s.symDepts)
		s.symRcDepts = s.AddFkSetSymbol(vFRcDepts, dept)
		dept.symRcMembers = dept.AddFkSetSymbol(vFRcMembers, s)
		s.rcDepts = s.AddRefCountedLinkCollection(s.symRcDepts, dept.symRcMembers)
		dept.rcMembers = dept.AddRefCountedLinkCollection(dept.symRcMembers, s.symRcDepts)
	}
	switch cfg.fk {
	case vFkIndexNullable:
		s.AddNullableFkIndex(s.symBoss, s.symReports)
	case vFkIndexNonNull:
		s.AddFkIndex(s.symBoss, s.symReports)
	case vFkIndexCascade:
		s.AddFkIndexCascadeDelete(s.symBoss, s.symReports)
	case vFkConstraintRestrict:
		s.AddFkConstraint(s.symBoss, true, CascadeNone)
	case vFkConstraintCascade:
		s.AddFkConstraint(s.symBoss, true, CascadeDelete)
	}
	return s
}

type vEnv struct {
	raw  *bbolt.DB
	db   *DbImpl
	emp  *vEmpStore
	dept *vDeptStore
	// optional child store of emp (harnesses that need one set it)
	kidStore *vMgrStore
}

func verifNewEnv(cfg vStoreCfg) *vEnv {
	raw := verifrt.OpenDB()
	env := &vEnv{raw: raw, db: &DbImpl{rootBucket: vRootPath, db: raw}}
	env.dept = verifNewDeptStore()
	env.emp = verifNewEmpStore(cfg, env.dept)
	err := env.db.Update(nil, func(ctx MutateContext) error {
		holder := &vErrHolder{}
		env.dept.InitializeIndexes(ctx.Tx(), holder)
		env.emp.InitializeIndexes(ctx.Tx(), holder)
		return holder.err
	})
	verifrt.Assert(err == nil, "store initialisation succeeds")
	return env
}

func (env *vEnv) close() { _ = env.raw.Close() }

type vErrHolder struct{ err error }

func (h *vErrHolder) HasError() bool  { return h.err != nil }
func (h *vErrHolder) GetError() error { return h.err }
func (h *vErrHolder) SetError(e error) bool {
	if h.err == nil && e != nil {
		h.err = e
		return true
	}
	return false
}

func (env *vEnv) update(fn func(ctx MutateContext) error) error {
	return env.db.Update(NewMutateContext(context.Background()), fn)
}

func (env *vEnv) view(fn func(tx *bbolt.Tx)) {
	_ = env.db.View(func(tx *bbolt.Tx) error {
		fn(tx)
		return nil
	})
}

// ---- abstract state (spec) ----

// ids in prefix relation on purpose: key-presence and seek logic must compare whole keys
var vIds = []string{"a", "ab", "b"}

type vSlot struct {
	present bool
	name    string
	nick    *string
	roles   [2]bool // membership of "r1", "r2"
	boss    *string
}

var vRoleNames = []string{"r1", "r2"}

func (s *vSlot) roleList() []string {
	var out []string
	for i, in := range s.roles {
		if in {
			out = append(out, vRoleNames[i])
		}
	}
	return out
}

func (s *vSlot) entity(id string) *vEmp {
	return &vEmp{Id: id, Name: s.name, Nick: s.nick, Roles: s.roleList(), Boss: s.boss}
}

func strPtrEq(a, b *string) bool {
	if a == nil || b == nil {
		return a == nil && b == nil
	}
	return *a == *b
}

// verifSymNick: nil | "" | one arbitrary byte
func verifSymOptString(tag string, maxLen int) *string {
	k := verifrt.Choose(tag+".kind", 2)
	if k == 0 {
		return nil
	}
	s := verifrt.StringUpTo(tag, maxLen)
	return &s
}
