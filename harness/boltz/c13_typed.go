//go:build verif

package boltz

import (
	"math"
	"time"

	"go.etcd.io/bbolt"

	"github.com/openziti/storage/verifrt"
)

func verifWithTypedBucket(write func(b *TypedBucket), read func(b *TypedBucket)) {
	db := verifrt.OpenDB()
	err := db.Update(func(tx *bbolt.Tx) error {
		b := GetOrCreatePath(tx, "root", "e")
		write(b)
		return b.GetError()
	})
	verifrt.Assert(err == nil, "C13 writing supported values succeeds")
	_ = db.View(func(tx *bbolt.Tx) error {
		read(Path(tx, "root", "e"))
		return nil
	})
	_ = db.Close()
}

// VerifC13_ScalarRoundTrip: every scalar type, null and the empty string.
func VerifC13_ScalarRoundTrip() {
	maxLen := 2
	if verifrt.Tier() == 1 {
		maxLen = 4
	}
	s := verifrt.StringUpTo("s", maxLen)
	var sp *string
	if verifrt.Bool("sp.set") {
		v := verifrt.StringUpTo("sp", maxLen)
		sp = &v
	}
	i64 := verifrt.Int64("i64")
	i32 := verifrt.Int32("i32")
	f := verifrt.Float64("f")
	b := verifrt.Bool("b")
	times := []time.Time{{}, time.Unix(0, 0), time.Date(2020, 2, 29, 23, 59, 59, 999999999, time.UTC), time.Date(9999, 12, 31, 0, 0, 0, 0, time.UTC), time.Date(1, 1, 1, 0, 0, 0, 1, time.UTC)}
	tk := verifrt.Choose("t", len(times)+1)
	var t time.Time
	if tk < len(times) {
		t = times[tk]
	} else {
		t = verifrt.TimeUTC("t") // an arbitrary instant, nanosecond resolution
	}
	verifWithTypedBucket(func(bk *TypedBucket) {
		bk.SetString("s", s, nil)
		bk.SetStringP("sp", sp, nil)
		bk.SetInt64("i64", i64, nil)
		bk.SetInt32("i32", i32, nil)
		bk.SetFloat64("f", f, nil)
		bk.SetBool("b", b, nil)
		bk.SetTime("t", t, nil)
		bk.SetTimeP("tp", nil, nil)
		bk.SetNil("n")
	}, func(bk *TypedBucket) {
		gs := bk.GetString("s")
		verifrt.Assert(gs != nil && *gs == s, "C13 string reads back equal (the empty string stays a string)")
		gsp := bk.GetString("sp")
		if sp == nil {
			verifrt.Assert(gsp == nil, "C13 null string reads back null")
		} else {
			verifrt.Assert(gsp != nil && *gsp == *sp, "C13 optional string reads back equal, distinguishable from null")
		}
		gi := bk.GetInt64("i64")
		verifrt.Assert(gi != nil && *gi == i64, "C13 int64 reads back equal")
		gi32 := bk.GetInt32("i32")
		verifrt.Assert(gi32 != nil && *gi32 == i32, "C13 int32 reads back equal")
		wide := bk.GetInt64("i32")
		verifrt.Assert(wide != nil && *wide == int64(i32), "C13 int32 widens to int64")
		gf := bk.GetFloat64("f")
		verifrt.Assert(gf != nil && math.Float64bits(*gf) == math.Float64bits(f), "C13 float64 reads back bit-identical")
		gb := bk.GetBool("b")
		verifrt.Assert(gb != nil && *gb == b, "C13 bool reads back equal")
		gt := bk.GetTime("t")
		verifrt.Assert(gt != nil && gt.Equal(t), "C13 time reads back as the same instant")
		verifrt.Assert(bk.GetTime("tp") == nil, "C13 null time reads back null")
		verifrt.Assert(bk.GetString("n") == nil && bk.GetInt64("n") == nil && bk.GetBool("n") == nil, "C13 null reads back null for every type")
		verifrt.Assert(bk.GetString("absent") == nil, "C13 an absent field reads as null")
	})
}

// VerifC13_FieldCheckerRestrictsWrites: a write restricted by a field checker
// touches exactly the selected fields (every setter kind).
func VerifC13_FieldCheckerRestrictsWrites() {
	old := struct {
		s  string
		i  int64
		b  bool
		f  float64
		l  []string
		i3 int32
	}{verifrt.StringUpTo("old.s", 1), verifrt.Int64("old.i"), verifrt.Bool("old.b"), verifrt.Float64("old.f"), []string{"p"}, verifrt.Int32("old.i3")}
	nw := struct {
		s  string
		i  int64
		b  bool
		f  float64
		l  []string
		i3 int32
	}{verifrt.StringUpTo("new.s", 1), verifrt.Int64("new.i"), verifrt.Bool("new.b"), verifrt.Float64("new.f"), []string{"q", "r"}, verifrt.Int32("new.i3")}
	fields := []string{"s", "i", "b", "f", "l", "i3", "m", "sp", "t"}
	sel := make([]bool, len(fields))
	checker := MapFieldChecker{}
	for k, name := range fields {
		sel[k] = verifrt.Bool("select." + name)
		if sel[k] {
			checker[name] = struct{}{}
		}
	}
	oldT, newT := time.Unix(100, 0), time.Unix(200, 0)
	oldSp, newSp := "o", "n"
	spNull, tNull := verifrt.Bool("new.sp.null"), verifrt.Bool("new.t.null")
	db := verifrt.OpenDB()
	err := db.Update(func(tx *bbolt.Tx) error {
		b := GetOrCreatePath(tx, "root", "e")
		b.SetString("s", old.s, nil).SetInt64("i", old.i, nil).SetBool("b", old.b, nil).SetFloat64("f", old.f, nil)
		b.SetStringList("l", old.l, nil).SetInt32("i3", old.i3, nil)
		b.PutMap("m", map[string]interface{}{"k": "old"}, nil, true)
		b.SetStringP("sp", &oldSp, nil).SetTime("t", oldT, nil)
		return b.GetError()
	})
	verifrt.Assert(err == nil, "C13 initial write succeeds")
	err = db.Update(func(tx *bbolt.Tx) error {
		b := Path(tx, "root", "e")
		b.SetString("s", nw.s, checker).SetInt64("i", nw.i, checker).SetBool("b", nw.b, checker).SetFloat64("f", nw.f, checker)
		b.SetStringList("l", nw.l, checker).SetInt32("i3", nw.i3, checker)
		b.PutMap("m", map[string]interface{}{"k": "new"}, checker, true)
		// the new optional values may be null: writing null is a write too
		var nsp *string
		var ntp *time.Time
		if !spNull {
			nsp = &newSp
		}
		if !tNull {
			ntp = &newT
		}
		b.SetStringP("sp", nsp, checker).SetTimeP("t", ntp, checker)
		return b.GetError()
	})
	verifrt.Assert(err == nil, "C13 restricted write succeeds")
	_ = db.View(func(tx *bbolt.Tx) error {
		b := Path(tx, "root", "e")
		pick := func(k int) bool { return sel[k] }
		gs, gi, gb, gf := b.GetString("s"), b.GetInt64("i"), b.GetBool("b"), b.GetFloat64("f")
		verifrt.Assert(gs != nil && *gs == iteStr(pick(0), nw.s, old.s), "C13 string field written iff selected")
		verifrt.Assert(gi != nil && *gi == verifrt.IteInt64(pick(1), nw.i, old.i), "C13 int64 field written iff selected")
		verifrt.Assert(gb != nil && *gb == verifrt.IteBool(pick(2), nw.b, old.b), "C13 bool field written iff selected")
		wantF := old.f
		if pick(3) {
			wantF = nw.f
		}
		verifrt.Assert(gf != nil && math.Float64bits(*gf) == math.Float64bits(wantF), "C13 float64 field written iff selected")
		gl := b.GetStringList("l")
		wantL := old.l
		if pick(4) {
			wantL = nw.l
		}
		verifrt.Assert(verifSameStrings(gl, wantL), "C13 string list written iff selected")
		g3 := b.GetInt32("i3")
		want3 := old.i3
		if pick(5) {
			want3 = nw.i3
		}
		verifrt.Assert(g3 != nil && *g3 == want3, "C13 int32 field written iff selected")
		gm := b.GetMap("m")
		wantM := "old"
		if pick(6) {
			wantM = "new"
		}
		verifrt.Assert(len(gm) == 1 && gm["k"] == wantM, "C13 map field written iff selected")
		gsp := b.GetString("sp")
		wantSp := oldSp
		if pick(7) {
			wantSp = newSp
		}
		if pick(7) && spNull {
			verifrt.Assert(gsp == nil, "C13 optional string set to null iff selected")
		} else {
			verifrt.Assert(gsp != nil && *gsp == wantSp, "C13 optional string written iff selected")
		}
		gt := b.GetTime("t")
		wantT := oldT
		if pick(8) {
			wantT = newT
		}
		if pick(8) && tNull {
			verifrt.Assert(gt == nil, "C13 optional time set to null iff selected")
		} else {
			verifrt.Assert(gt != nil && gt.Equal(wantT), "C13 time field written iff selected")
		}
		return nil
	})
	_ = db.Close()
}

func iteStr(c bool, a, b string) string {
	if c {
		return a
	}
	return b
}

// deep equality of marshalled values with symbolic leaves
func verifDeepEq(a, b interface{}) bool {
	switch av := a.(type) {
	case nil:
		return b == nil
	case string:
		bv, ok := b.(string)
		return ok && av == bv
	case int64:
		bv, ok := b.(int64)
		return ok && av == bv
	case int32:
		bv, ok := b.(int32)
		return ok && av == bv
	case bool:
		bv, ok := b.(bool)
		return ok && av == bv
	case float64:
		bv, ok := b.(float64)
		return ok && math.Float64bits(av) == math.Float64bits(bv)
	case time.Time:
		bv, ok := b.(time.Time)
		return ok && av.Equal(bv)
	case map[string]interface{}:
		bv, ok := b.(map[string]interface{})
		if !ok || len(av) != len(bv) {
			return false
		}
		res := true
		for k, x := range av {
			y, present := bv[k]
			if !present {
				return false
			}
			res = verifrt.And(res, verifDeepEq(x, y))
		}
		return res
	case []interface{}:
		bv, ok := b.([]interface{})
		if !ok || len(av) != len(bv) {
			return false
		}
		res := true
		for k := range av {
			res = verifrt.And(res, verifDeepEq(av[k], bv[k]))
		}
		return res
	}
	return false
}

// VerifC13_ContainersRoundTrip: nested maps and lists (empty ones and nulls
// inside included) read back equal; string lists come back as sorted sets.
func VerifC13_ContainersRoundTrip() {
	leafS := verifrt.StringUpTo("leaf.s", 1)
	leafI := verifrt.Int64("leaf.i")
	leafF := verifrt.Float64("leaf.f")
	leafB := verifrt.Bool("leaf.b")
	leaf32 := verifrt.Int32("leaf.i32")
	shapes := []map[string]interface{}{
		{},
		{"a": leafS, "b": leafI, "c": nil, "d": leafB, "e": leafF, "f": leaf32, "": "empty key is not storable"},
		{"a": leafS, "b": leafI, "c": nil, "d": leafB, "e": leafF, "f": leaf32},
		{"m": map[string]interface{}{"x": leafS, "y": map[string]interface{}{}}, "l": []interface{}{leafS, leafI, nil, leafB}},
		{"emptyList": []interface{}{}, "emptyMap": map[string]interface{}{}, "nested": map[string]interface{}{"l": []interface{}{}}, "ll": []interface{}{[]interface{}{}, map[string]interface{}{}}},
		{"t": time.Unix(12345, 6789), "l": []interface{}{[]interface{}{leafI, []interface{}{leafS}}, map[string]interface{}{"k": leafF}}},
	}
	k := verifrt.Choose("shape", len(shapes))
	if k == 1 {
		verifrt.Outside("map with an empty key (bbolt cannot store an empty key; not a supported value)")
	}
	v := shapes[k]
	verifWithTypedBucket(func(bk *TypedBucket) {
		bk.PutMap("m", v, nil, true)
	}, func(bk *TypedBucket) {
		got := bk.GetMap("m")
		verifrt.Assert(verifDeepEq(v, got), "C13 nested maps and lists read back equal")
	})
	// string lists: any order, duplicates -> sorted duplicate-free set
	n := verifrt.Choose("list.n", 4)
	list := make([]string, n)
	for i := range list {
		list[i] = verifrt.StringUpTo("list", 1)
	}
	verifWithTypedBucket(func(bk *TypedBucket) {
		bk.SetStringList("l", list, nil)
	}, func(bk *TypedBucket) {
		got := bk.GetStringList("l")
		ok := true
		for i := 1; i < len(got); i++ {
			ok = verifrt.And(ok, got[i-1] < got[i])
		}
		for _, x := range list {
			in := false
			for _, g := range got {
				in = verifrt.Or(in, g == x)
			}
			ok = verifrt.And(ok, in)
		}
		for _, g := range got {
			in := false
			for _, x := range list {
				in = verifrt.Or(in, g == x)
			}
			ok = verifrt.And(ok, in)
		}
		verifrt.Assert(ok, "C13 a string list reads back as the sorted duplicate-free set of its elements")
	})
}

// VerifC13_GetAndSet: the read-modify-write setters return what was stored
// before, report whether the stored value changed, and write exactly when the
// field checker selects the field.
func VerifC13_GetAndSet() {
	hadOld := verifrt.Bool("old.present")
	oldS, newS := verifrt.StringUpTo("old.s", 1), verifrt.StringUpTo("new.s", 1)
	oldL := []string{"p", "q"}
	newL := []string{"q", "r"}
	selS, selL := verifrt.Bool("select.s"), verifrt.Bool("select.l")
	useChecker := verifrt.Bool("checker")
	var checker FieldChecker
	if useChecker {
		m := MapFieldChecker{}
		if selS {
			m["s"] = struct{}{}
		}
		if selL {
			m["l"] = struct{}{}
		}
		checker = m
	} else {
		selS, selL = true, true
	}
	db := verifrt.OpenDB()
	err := db.Update(func(tx *bbolt.Tx) error {
		b := GetOrCreatePath(tx, "root", "e")
		if hadOld {
			b.SetString("s", oldS, nil).SetStringList("l", oldL, nil)
		}
		return b.GetError()
	})
	verifrt.Assert(err == nil, "C13 initial write succeeds")
	var gotOld *string
	var changed, changedL bool
	var gotOldL []string
	err = db.Update(func(tx *bbolt.Tx) error {
		b := Path(tx, "root", "e")
		gotOld, changed = b.GetAndSetString("s", newS, checker)
		gotOldL, changedL = b.GetAndSetStringList("l", newL, checker)
		return b.GetError()
	})
	verifrt.Assert(err == nil, "C13 read-modify-write succeeds")
	if selS {
		if hadOld {
			verifrt.Assert(gotOld != nil && *gotOld == oldS, "C13 GetAndSetString returns the previous value")
			verifrt.Assert(changed == (oldS != newS), "C13 GetAndSetString reports a change iff the value differs")
		} else {
			verifrt.Assert(gotOld == nil && changed, "C13 GetAndSetString on an absent field returns nil and reports a change")
		}
	} else {
		verifrt.Assert(gotOld == nil && !changed, "C13 GetAndSetString on an unselected field reports no change")
	}
	if hadOld {
		verifrt.Assert(verifSameStrings(gotOldL, oldL), "C13 GetAndSetStringList returns the previous list")
	} else {
		verifrt.Assert(len(gotOldL) == 0, "C13 GetAndSetStringList on an absent field returns an empty list")
	}
	verifrt.Assert(changedL == selL, "C13 GetAndSetStringList reports a write iff the field is selected")
	_ = db.View(func(tx *bbolt.Tx) error {
		b := Path(tx, "root", "e")
		gs := b.GetString("s")
		switch {
		case selS:
			verifrt.Assert(gs != nil && *gs == newS, "C13 GetAndSetString stores the new value when selected")
		case hadOld:
			verifrt.Assert(gs != nil && *gs == oldS, "C13 GetAndSetString leaves an unselected field alone")
		default:
			verifrt.Assert(gs == nil, "C13 GetAndSetString does not create an unselected field")
		}
		gl := b.GetStringList("l")
		switch {
		case selL:
			verifrt.Assert(verifSameStrings(gl, newL), "C13 GetAndSetStringList stores the new list when selected")
			verifrt.Assert(!b.IsStringListEmpty("l"), "C13 a stored non-empty list is not reported empty")
		case hadOld:
			verifrt.Assert(verifSameStrings(gl, oldL), "C13 GetAndSetStringList leaves an unselected list alone")
		default:
			verifrt.Assert(len(gl) == 0 && b.IsStringListEmpty("l"), "C13 an absent list reads as empty")
		}
		return nil
	})
	_ = db.Close()
}

// VerifC13_StringListOverwrite: a stored string list is overwritten with an
// arbitrary list drawn from the old elements and a new one, repeats allowed:
// what reads back is exactly the set of the new list's elements.
func VerifC13_StringListOverwrite() {
	univ := []string{"alpha", "gamma", "zeta"}
	var old []string
	var oldIn [3]bool
	for i := 0; i < 2; i++ {
		if verifrt.Bool("old.has") {
			old = append(old, univ[i])
			oldIn[i] = true
		}
	}
	n := verifrt.Choose("new.len", 4)
	var nw []string
	var newIn [3]bool
	for i := 0; i < n; i++ {
		k := verifrt.Choose("new.elem", 3)
		nw = append(nw, univ[k])
		newIn[k] = true
	}
	db := verifrt.OpenDB()
	err := db.Update(func(tx *bbolt.Tx) error {
		b := GetOrCreatePath(tx, "root", "e")
		b.SetStringList("l", old, nil)
		return b.GetError()
	})
	verifrt.Assert(err == nil, "C13 initial list write succeeds")
	err = db.Update(func(tx *bbolt.Tx) error {
		b := Path(tx, "root", "e")
		b.SetStringList("l", nw, nil)
		return b.GetError()
	})
	verifrt.Assert(err == nil, "C13 list overwrite succeeds")
	_ = db.View(func(tx *bbolt.Tx) error {
		got := Path(tx, "root", "e").GetStringList("l")
		var want []string
		for k, in := range newIn {
			if in {
				want = append(want, univ[k])
			}
		}
		verifrt.Assert(verifSameStrings(got, want), "C13 an overwritten string list reads back as exactly the elements written (repeats collapse, old elements gone)")
		return nil
	})
	_ = db.Close()
}

// VerifC13_LongLists: lists longer than one byte's worth of indexes (index
// keys are multi-byte integers: their byte order is not their numeric order)
// round-trip in order, top level and nested.
func VerifC13_LongLists() {
	n := []int{255, 256, 257, 300}[verifrt.Choose("len", 4)]
	nested := verifrt.Bool("nested")
	list := make([]interface{}, n)
	for i := range list {
		list[i] = int64(i)
	}
	var val interface{} = list
	if nested {
		val = map[string]interface{}{"inner": list}
	}
	db := verifrt.OpenDB()
	err := db.Update(func(tx *bbolt.Tx) error {
		b := GetOrCreatePath(tx, "root", "e")
		b.PutMap("m", map[string]interface{}{"v": val}, nil, true)
		return b.GetError()
	})
	verifrt.Assert(err == nil, "C13 writing a long list succeeds")
	_ = db.View(func(tx *bbolt.Tx) error {
		got := Path(tx, "root", "e").GetMap("m")["v"]
		if nested {
			m, _ := got.(map[string]interface{})
			got = m["inner"]
		}
		l, ok := got.([]interface{})
		verifrt.Assert(ok && len(l) == n, "C13 a long list reads back with its length")
		if ok && len(l) == n {
			inOrder := true
			for i := range l {
				v, isInt := l[i].(int64)
				inOrder = inOrder && isInt && v == int64(i)
			}
			verifrt.Assert(inOrder, "C13 a long list reads back element by element in order")
		}
		return nil
	})
	_ = db.Close()
}

// VerifC13_DefaultedReadsMappedCheckerCopy: (1) the defaulting getters return
// the stored value when one is stored (also the empty string / zero / false)
// and the default exactly when the field is null or absent; (2) a mapped
// field checker restricts writes by the mapped name; (3) TypedBucket.Copy
// reproduces scalars, nulls and nested buckets under the filter it is given.
func VerifC13_DefaultedReadsMappedCheckerCopy() {
	kind := verifrt.Choose("stored", 3) // 0 absent, 1 null, 2 value
	s, ds := verifrt.StringUpTo("s", 1), verifrt.StringUpTo("default.s", 1)
	i64, di64 := verifrt.Int64("i64"), verifrt.Int64("default.i64")
	i32, di32 := verifrt.Int32("i32"), verifrt.Int32("default.i32")
	b, db_ := verifrt.Bool("b"), verifrt.Bool("default.b")
	t, dt := verifrt.TimeUTC("t"), time.Date(2001, 2, 3, 4, 5, 6, 7, time.UTC)
	selX, selB := verifrt.Bool("select.x"), verifrt.Bool("select.b")
	copyNested, copyS := verifrt.Bool("copy.nested"), verifrt.Bool("copy.s")
	base := MapFieldChecker{}
	if selX {
		base["x"] = struct{}{}
	}
	if selB {
		base["mb"] = struct{}{}
	}
	mapped := NewMappedFieldChecker(base, map[string]string{"ma": "x"})
	db := verifrt.OpenDB()
	err := db.Update(func(tx *bbolt.Tx) error {
		bk := GetOrCreatePath(tx, "root", "e")
		switch kind {
		case 1:
			bk.SetNil("s")
			bk.SetNil("i64")
			bk.SetNil("i32")
			bk.SetNil("b")
			bk.SetTimeP("t", nil, nil)
		case 2:
			bk.SetString("s", s, nil).SetInt64("i64", i64, nil).SetInt32("i32", i32, nil).SetBool("b", b, nil).SetTime("t", t, nil)
		}
		bk.SetString("ma", "new", mapped).SetString("mb", "new", mapped).SetString("x", "new", mapped)
		n := bk.GetOrCreateBucket("nested")
		n.SetInt64("deep", i64, nil).SetNil("deepnil")
		n.GetOrCreateBucket("inner").SetString("leaf", s, nil)
		if bk.GetError() != nil {
			return bk.GetError()
		}
		dst := GetOrCreatePath(tx, "root", "copy")
		return dst.Copy(bk, func(path []string) bool {
			if path[0] == "nested" {
				return copyNested
			}
			if path[0] == "s" {
				return copyS
			}
			return true
		})
	})
	verifrt.Assert(err == nil, "C13 writes and copy succeed")
	_ = db.View(func(tx *bbolt.Tx) error {
		bk := Path(tx, "root", "e")
		if kind == 2 {
			verifrt.Assert(bk.GetStringWithDefault("s", ds) == s, "C13 defaulting string getter returns the stored value")
			verifrt.Assert(bk.GetInt64WithDefault("i64", di64) == i64, "C13 defaulting int64 getter returns the stored value")
			verifrt.Assert(bk.GetInt32WithDefault("i32", di32) == i32, "C13 defaulting int32 getter returns the stored value")
			verifrt.Assert(bk.GetInt64WithDefault("i32", di64) == int64(i32), "C13 defaulting int64 getter widens a stored int32")
			verifrt.Assert(bk.GetBoolWithDefault("b", db_) == b, "C13 defaulting bool getter returns the stored value")
			verifrt.Assert(bk.GetTimeOrDefault("t", dt).Equal(t), "C13 defaulting time getter returns the stored instant")
		} else {
			verifrt.Assert(bk.GetStringWithDefault("s", ds) == ds, "C13 defaulting string getter returns the default for null / absent")
			verifrt.Assert(bk.GetInt64WithDefault("i64", di64) == di64, "C13 defaulting int64 getter returns the default for null / absent")
			verifrt.Assert(bk.GetInt32WithDefault("i32", di32) == di32, "C13 defaulting int32 getter returns the default for null / absent")
			verifrt.Assert(bk.GetBoolWithDefault("b", db_) == db_, "C13 defaulting bool getter returns the default for null / absent")
			verifrt.Assert(bk.GetTimeOrDefault("t", dt).Equal(dt), "C13 defaulting time getter returns the default for null / absent")
		}
		verifrt.Assert((bk.GetString("ma") != nil) == selX, "C13 mapped checker: a mapped field is written iff its mapped name is selected")
		verifrt.Assert((bk.GetString("mb") != nil) == selB, "C13 mapped checker: an unmapped field is written iff its own name is selected")
		verifrt.Assert((bk.GetString("x") != nil) == selX, "C13 mapped checker: the mapped-to name itself follows the base checker")

		cp := Path(tx, "root", "copy")
		verifrt.Assert(cp != nil, "C13 copy target exists")
		gs := cp.GetString("s")
		if kind == 2 && copyS {
			verifrt.Assert(gs != nil && *gs == s, "C13 copy reproduces a string")
		} else {
			verifrt.Assert(gs == nil, "C13 copy leaves out filtered / absent / null strings as null")
		}
		gi, gi3, gb, gt := cp.GetInt64("i64"), cp.GetInt32("i32"), cp.GetBool("b"), cp.GetTime("t")
		if kind == 2 {
			verifrt.Assert(gi != nil && *gi == i64 && gi3 != nil && *gi3 == i32 && gb != nil && *gb == b && gt != nil && gt.Equal(t), "C13 copy reproduces int64, int32, bool and time")
		} else {
			verifrt.Assert(gi == nil && gi3 == nil && gb == nil && gt == nil, "C13 copy keeps null / absent fields null")
		}
		nb := cp.GetBucket("nested")
		if copyNested {
			verifrt.Assert(nb != nil, "C13 copy reproduces a nested bucket")
			d := nb.GetInt64("deep")
			verifrt.Assert(d != nil && *d == i64 && nb.GetInt64("deepnil") == nil, "C13 copy reproduces nested values")
			in := nb.GetBucket("inner")
			verifrt.Assert(in != nil, "C13 copy reproduces a bucket two levels down")
			l := in.GetString("leaf")
			verifrt.Assert(l != nil && *l == s, "C13 copy reproduces a value two levels down")
		} else {
			verifrt.Assert(nb == nil, "C13 copy leaves out a filtered bucket")
		}
		return nil
	})
	_ = db.Close()
}
