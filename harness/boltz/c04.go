//go:build verif

package boltz

import (
	"go.etcd.io/bbolt"

	"github.com/openziti/storage/ast"
	"github.com/openziti/storage/verifrt"
)

// C04: emps reference depts through the boss field, wired in each of the five
// supported ways. Abstract state: which depts exist, which emps exist and
// which dept (or nil) each emp references.

type vSpecFk struct {
	deptIds  []string
	dept     []bool
	emp      []bool
	boss     []int // per emp: -1 nil, otherwise index into deptIds
	nullable bool
}

func (cfg vStoreCfg) fkNullable() bool {
	return cfg.fk == vFkIndexNullable || cfg.fk == vFkConstraintRestrict || cfg.fk == vFkConstraintCascade
}

func (cfg vStoreCfg) fkCascades() bool {
	return cfg.fk == vFkIndexCascade || cfg.fk == vFkConstraintCascade
}

func (cfg vStoreCfg) fkHasBackrefs() bool {
	return cfg.fk == vFkIndexNullable || cfg.fk == vFkIndexNonNull || cfg.fk == vFkIndexCascade
}

func (sp *vSpecFk) bossPtr(e int) *string {
	if sp.boss[e] < 0 {
		return nil
	}
	s := sp.deptIds[sp.boss[e]]
	return &s
}

func verifEmpFor(id string, boss *string, cfg vStoreCfg) *vEmp {
	e := &vEmp{Id: id, Name: "N" + id, Boss: boss}
	if !cfg.nickNullable {
		k := "K" + id
		e.Nick = &k
	}
	return e
}

// arbitrary valid state over nDept depts and nEmp emps
func verifSymSpecFk(cfg vStoreCfg, deptIds []string, nEmp int) *vSpecFk {
	sp := &vSpecFk{deptIds: deptIds, dept: make([]bool, len(deptIds)), emp: make([]bool, nEmp), boss: make([]int, nEmp), nullable: cfg.fkNullable()}
	for d := range sp.dept {
		sp.dept[d] = verifrt.Choose("dept.present", 2) == 1
	}
	for e := range sp.emp {
		sp.boss[e] = -1
		if verifrt.Choose("emp.present", 2) == 0 {
			continue
		}
		sp.emp[e] = true
		b := verifrt.Choose("emp.boss", len(deptIds)+1) - 1
		if b < 0 {
			verifrt.Assume(sp.nullable)
		} else {
			verifrt.Assume(sp.dept[b])
		}
		sp.boss[e] = b
	}
	return sp
}

func (env *vEnv) buildFk(sp *vSpecFk, cfg vStoreCfg) {
	err := env.update(func(ctx MutateContext) error {
		for d, id := range sp.deptIds {
			if sp.dept[d] {
				if err := env.dept.Create(ctx, &vDept{Id: id, Label: "L"}); err != nil {
					return err
				}
			}
		}
		for e := range sp.emp {
			if sp.emp[e] {
				if err := env.emp.Create(ctx, verifEmpFor(vIds[e], sp.bossPtr(e), cfg)); err != nil {
					return err
				}
			}
		}
		return nil
	})
	verifrt.Assert(err == nil, "C04 building a valid population succeeds")
}

func (env *vEnv) checkStateFk(sp *vSpecFk, cfg vStoreCfg, label string) {
	env.view(func(tx *bbolt.Tx) {
		for e := range sp.emp {
			ent, found, err := env.emp.FindById(tx, vIds[e])
			verifrt.Assert(err == nil && found == sp.emp[e], label+": emp present iff the spec says so")
			if found && sp.emp[e] {
				verifrt.Assert(strPtrEq(ent.Boss, sp.bossPtr(e)), label+": stored reference equals the spec")
			}
		}
		for d, id := range sp.deptIds {
			_, found, err := env.dept.FindById(tx, id)
			verifrt.Assert(err == nil && found == sp.dept[d], label+": dept present iff the spec says so")
			if !found || !cfg.fkHasBackrefs() {
				continue
			}
			// back-reference set of the target == current referrers
			want := 0
			for e := range sp.emp {
				if sp.emp[e] && sp.boss[e] == d {
					want++
				}
			}
			eb := env.dept.GetEntityBucket(tx, []byte(id))
			refs := eb.GetBucket(vFEmps)
			if want == 0 {
				verifrt.Assert(refs == nil || verifCountKeys(refs.Bucket) == 0, label+": no back-references for an unreferenced target")
				continue
			}
			verifrt.Assert(refs != nil, label+": back-reference set exists for a referenced target")
			if refs != nil {
				ok := true
				for e := range sp.emp {
					if sp.emp[e] && sp.boss[e] == d {
						ok = verifrt.And(ok, refs.Get(PrependFieldType(TypeString, []byte(vIds[e]))) != nil)
					}
				}
				verifrt.Assert(ok, label+": back-reference set lists every referrer")
				verifrt.Assert(verifCountKeys(refs.Bucket) == want, label+": back-reference set lists only current referrers")
			}
			// the same through the store's own accessors
			rel := env.dept.GetRelatedEntitiesIdList(tx, id, vFEmps)
			verifrt.Assert(len(rel) == want, label+": GetRelatedEntitiesIdList lists exactly the referrers")
			for e := range sp.emp {
				verifrt.Assert(env.dept.IsEntityRelated(tx, id, vFEmps, vIds[e]) == (sp.emp[e] && sp.boss[e] == d), label+": IsEntityRelated agrees with the references")
			}
		}
	})
}

// verifSymIds: n distinct, non-empty ids of 1..maxLen arbitrary bytes, none
// equal to the reserved never-existing id "z".
func verifSymIds(n, maxLen int) []string {
	ids := make([]string, n)
	for i := range ids {
		ids[i] = verifrt.String("id", 1+verifrt.Choose("id.len", maxLen))
		for k := 0; k < len(ids[i]); k++ {
			// printable ASCII (quotes, backslashes, keyword letters included) and
			// the four escapable control characters; other control characters
			// cannot be written in a filter literal at all and non-ASCII bytes go
			// through ANTLR's rune conversion (outside the claim)
			b := ids[i][k]
			ctl := verifrt.Or(verifrt.Or(b == '\f', b == '\n'), verifrt.Or(b == '\r', b == '\t'))
			verifrt.Assume(verifrt.Or(verifrt.InRange(b, 0x20, 0x7e), ctl))
		}
		verifrt.Assume(ids[i] != "z")
		verifrt.Assume(ids[i] != "y")
		for j := 0; j < i; j++ {
			verifrt.Assume(ids[i] != ids[j])
		}
	}
	return ids
}

func verifC04Step(cfg vStoreCfg, symbolicIds bool) {
	cfg.fkToDept = true
	cfg.nickNullable = true
	nEmp := 2
	twoSteps := false
	if verifrt.Tier() == 1 && !symbolicIds {
		// thorough: either three referrers and one operation, or two referrers
		// and a history of two operations
		if verifrt.Choose("mode", 2) == 0 {
			nEmp = 3
		} else {
			twoSteps = true
		}
	}
	deptIds := []string{"x", "xy"}
	if symbolicIds {
		maxLen := 2
		if verifrt.Tier() == 1 {
			maxLen = 3
		}
		deptIds = []string{verifSymIds(1, maxLen)[0], "y"}
	}
	env := verifNewEnv(cfg)
	defer env.close()
	sp := verifSymSpecFk(cfg, deptIds, nEmp)
	env.buildFk(sp, cfg)
	env.checkStateFk(sp, cfg, "C04 after build")
	// thorough (fixed ids): a second operation from the state the first one left
	steps := 1
	if twoSteps {
		steps = 2
	}
	for step := 0; step < steps; step++ {
		next, changed := verifC04One(env, cfg, sp, deptIds, nEmp)
		if !changed {
			return
		}
		sp = next
	}
}

// verifC04One performs one symbolic operation from state sp and checks the
// result; it returns the successor state (false if the operation was rejected).
func verifC04One(env *vEnv, cfg vStoreCfg, sp *vSpecFk, deptIds []string, nEmp int) (*vSpecFk, bool) {
	next := &vSpecFk{deptIds: deptIds, dept: append([]bool{}, sp.dept...), emp: append([]bool{}, sp.emp...), boss: append([]int{}, sp.boss...), nullable: sp.nullable}
	op := verifrt.Choose("op", 5)
	var err error
	accept, refExists, notFound := true, false, false
	switch op {
	case 0, 1, 2: // create / full update / update restricted to the boss field (or not)
		e := verifrt.Choose("emp", nEmp)
		// requested reference: nil, an existing-or-not dept id, or an id that never exists
		b := verifrt.Choose("boss", len(deptIds)+2) - 1 // -1 nil, 0..n-1 dept, n = missing id "z"
		var bossPtr *string
		targetOk := true
		if b == len(deptIds) {
			z := "z"
			bossPtr = &z
			targetOk = false
		} else if b >= 0 {
			s := deptIds[b]
			bossPtr = &s
			targetOk = sp.dept[b]
		} else {
			targetOk = sp.nullable
		}
		var checker FieldChecker
		selected := true
		if op == 2 {
			selected = verifrt.Choose("chk.boss", 2) == 1
			m := MapFieldChecker{vFName: struct{}{}}
			if selected {
				m[vFBoss] = struct{}{}
			}
			checker = m
		}
		if op == 0 {
			if sp.emp[e] {
				accept = false
			} else {
				accept = targetOk
				notFound = !targetOk && bossPtr != nil
			}
			if accept {
				next.emp[e], next.boss[e] = true, b
			}
			err = env.update(func(ctx MutateContext) error { return env.emp.Create(ctx, verifEmpFor(vIds[e], bossPtr, cfg)) })
		} else {
			if !sp.emp[e] {
				accept, notFound = false, true
			} else if selected {
				// an update that leaves the reference unchanged is accepted as is
				same := b == sp.boss[e]
				accept = targetOk || same
				notFound = !accept && bossPtr != nil
				if accept {
					next.boss[e] = b
				}
			}
			err = env.update(func(ctx MutateContext) error {
				return env.emp.Update(ctx, verifEmpFor(vIds[e], bossPtr, cfg), checker)
			})
		}
	case 3: // delete a referrer
		e := verifrt.Choose("emp", nEmp)
		if !sp.emp[e] {
			accept, notFound = false, true
		} else {
			next.emp[e], next.boss[e] = false, -1
		}
		err = env.update(func(ctx MutateContext) error { return env.emp.DeleteById(ctx, vIds[e]) })
	case 4: // delete a target
		d := verifrt.Choose("dept", len(deptIds))
		referenced := false
		for e := range sp.emp {
			if sp.emp[e] && sp.boss[e] == d {
				referenced = true
			}
		}
		if !sp.dept[d] {
			accept, notFound = false, true
		} else if referenced && !cfg.fkCascades() {
			accept, refExists = false, true
		} else {
			next.dept[d] = false
			for e := range sp.emp {
				if sp.emp[e] && sp.boss[e] == d {
					next.emp[e], next.boss[e] = false, -1
				}
			}
		}
		err = env.update(func(ctx MutateContext) error { return env.dept.DeleteById(ctx, deptIds[d]) })
	}
	verifrt.Assert((err == nil) == accept, "C04 operation accepted iff the reference model accepts it")
	if err != nil {
		if refExists {
			verifrt.Assert(IsReferenceExistsError(err), "C04 delete of a referenced target refused with a reference-exists error")
		}
		if notFound {
			verifrt.Assert(IsErrNotFoundErr(err), "C04 missing entity / missing target reported as not found")
		}
		env.checkStateFk(sp, cfg, "C04 after a rejected operation (unchanged)")
		return sp, false
	}
	env.checkStateFk(next, cfg, "C04 after the operation")
	return next, true
}

func VerifC04_FkIndexNullable()      { verifC04Step(vStoreCfg{fk: vFkIndexNullable}, false) }
func VerifC04_FkIndexNonNull()       { verifC04Step(vStoreCfg{fk: vFkIndexNonNull}, false) }
func VerifC04_FkIndexCascade()       { verifC04Step(vStoreCfg{fk: vFkIndexCascade}, false) }
func VerifC04_FkConstraintRestrict() { verifC04Step(vStoreCfg{fk: vFkConstraintRestrict}, false) }
func VerifC04_FkConstraintCascade()  { verifC04Step(vStoreCfg{fk: vFkConstraintCascade}, false) }

// the same steps for *every* target id (arbitrary bytes: quotes, backslashes,
// control characters, keyword spellings), for the wirings whose delete path
// builds a filter from the id, and one that does not
func VerifC04_AnyIdFkIndexNullable()      { verifC04Step(vStoreCfg{fk: vFkIndexNullable}, true) }
func VerifC04_AnyIdFkIndexCascade()       { verifC04Step(vStoreCfg{fk: vFkIndexCascade}, true) }
func VerifC04_AnyIdFkConstraintRestrict() { verifC04Step(vStoreCfg{fk: vFkConstraintRestrict}, true) }
func VerifC04_AnyIdFkConstraintCascade()  { verifC04Step(vStoreCfg{fk: vFkConstraintCascade}, true) }

// verifC04CascadeInWritingTx: the cascade runs inside a transaction that has
// already written to the referrers' store (so bbolt iterates live nodes, where
// a delete under a cursor shifts the rows after it): four adjacent referrers,
// each referencing x or xy (or nothing, where allowed); one transaction creates
// a fifth emp and then deletes x. Exactly the referrers of x go with it.
func verifC04CascadeInWritingTx(cfg vStoreCfg) {
	cfg.fkToDept = true
	cfg.nickNullable = true
	env := verifNewEnv(cfg)
	defer env.close()
	deptIds := []string{"x", "xy"}
	env.createDepts(deptIds...)
	ids := []string{"a", "ab", "b", "c"}
	boss := make([]int, len(ids))
	for i, id := range ids {
		n := 2
		if cfg.fkNullable() {
			n = 3
		}
		boss[i] = verifrt.Choose("boss", n)
		var bp *string
		if boss[i] < 2 {
			s := deptIds[boss[i]]
			bp = &s
		}
		err := env.update(func(ctx MutateContext) error { return env.emp.Create(ctx, verifEmpFor(id, bp, cfg)) })
		verifrt.Assert(err == nil, "C04 cascade population setup succeeds")
	}
	first := verifrt.Choose("first", 3)
	xy := "xy"
	err := env.update(func(ctx MutateContext) error {
		var err error
		switch first {
		case 0: // a new referrer of the other dept, sorted before the others
			err = env.emp.Create(ctx, verifEmpFor("0", &xy, cfg))
		case 1: // a new emp sorted after the others
			err = env.emp.Create(ctx, verifEmpFor("d", &xy, cfg))
		case 2: // an update of an existing referrer that leaves its reference alone
			var bp *string
			if boss[1] < 2 {
				s := deptIds[boss[1]]
				bp = &s
			}
			err = env.emp.Update(ctx, verifEmpFor(ids[1], bp, cfg), nil)
		}
		if err != nil {
			return err
		}
		return env.dept.DeleteById(ctx, "x")
	})
	verifrt.Assert(err == nil, "C04 cascading delete inside a writing transaction succeeds")
	env.view(func(tx *bbolt.Tx) {
		_, found, _ := env.dept.FindById(tx, "x")
		verifrt.Assert(!found, "C04 the deleted target is gone")
		_, found, _ = env.dept.FindById(tx, "xy")
		verifrt.Assert(found, "C04 the other target stays")
		for i, id := range ids {
			ent, found, err := env.emp.FindById(tx, id)
			verifrt.Assert(err == nil && found == (boss[i] != 0), "C04 cascade deletes exactly the referrers of the deleted target (transaction with earlier writes)")
			if found && boss[i] == 1 {
				verifrt.Assert(ent.Boss != nil && *ent.Boss == "xy", "C04 surviving referrers keep their reference")
			}
		}
		// "x" occurs in no key or value any more ("xy" is a different id: whole
		// keys / values are compared)
		verifrt.Assert(!verifScanForId(tx, "x"), "C06 after a cascading delete the target's id occurs nowhere (no dangling reference values)")
		if first == 0 || first == 1 {
			_, found, _ := env.emp.FindById(tx, []string{"0", "d"}[first])
			verifrt.Assert(found, "C04 the emp created earlier in the transaction stays")
		}
	})
}

func VerifC04_FkIndexCascadeInWritingTx() { verifC04CascadeInWritingTx(vStoreCfg{fk: vFkIndexCascade}) }
func VerifC04_FkConstraintCascadeInWritingTx() {
	verifC04CascadeInWritingTx(vStoreCfg{fk: vFkConstraintCascade})
}

func init() {
	ast.VerifTemplates = append(ast.VerifTemplates, vFBoss+` = "__VERIF_LIT__"`)
	verifQueryFamilies = append(verifQueryFamilies, func() []string {
		// the filters the cascade / restrict constraint builds for the fixed ids
		var qs []string
		for _, id := range []string{"x", "y", "xy", "z", "a", "ab", "b", "c"} {
			qs = append(qs, vFBoss+` = "`+id+`"`)
		}
		return qs
	})
}

// VerifC04_CascadeOverSelfAndCyclicReferences: boss references the emp store
// itself (nullable fk constraint with cascading delete). Three emps reference
// nothing, themselves or each other in every possible way, reference cycles
// included; the first one is deleted. Exactly the transitive referrers go.
func VerifC04_CascadeOverSelfAndCyclicReferences() {
	cfg := vStoreCfg{fk: vFkConstraintCascade, nickNullable: true}
	env := verifNewEnv(cfg)
	defer env.close()
	n := 3
	boss := make([]int, n) // -1 nil, else index of the referenced emp
	err := env.update(func(ctx MutateContext) error {
		for i := 0; i < n; i++ {
			if err := env.emp.Create(ctx, verifEmpFor(vIds[i], nil, cfg)); err != nil {
				return err
			}
		}
		return nil
	})
	verifrt.Assert(err == nil, "C04 cycle population setup succeeds")
	for i := 0; i < n; i++ {
		boss[i] = verifrt.Choose("boss", n+1) - 1
		if boss[i] < 0 {
			continue
		}
		b := vIds[boss[i]]
		err := env.update(func(ctx MutateContext) error { return env.emp.Update(ctx, verifEmpFor(vIds[i], &b, cfg), nil) })
		verifrt.Assert(err == nil, "C04 referencing an existing emp (itself included) is accepted")
	}
	gone := make([]bool, n)
	gone[0] = true
	for round := 0; round < n; round++ {
		for i := 0; i < n; i++ {
			if boss[i] >= 0 && gone[boss[i]] {
				gone[i] = true
			}
		}
	}
	err = env.update(func(ctx MutateContext) error { return env.emp.DeleteById(ctx, vIds[0]) })
	verifrt.Assert(err == nil, "C04 cascading delete over self / cyclic references succeeds")
	env.view(func(tx *bbolt.Tx) {
		for i := 0; i < n; i++ {
			ent, found, ferr := env.emp.FindById(tx, vIds[i])
			verifrt.Assert(ferr == nil && found == !gone[i], "C04 cascade over self / cyclic references deletes exactly the transitive referrers")
			if found && !gone[i] {
				var want *string
				if boss[i] >= 0 {
					s := vIds[boss[i]]
					want = &s
				}
				verifrt.Assert(strPtrEq(ent.Boss, want), "C04 survivors keep their reference")
			}
		}
	})
}

// a second referrer store with a cascading fk constraint onto depts
type vCrewStore struct {
	*BaseStore[*vTeam]
}

func verifNewCrewStore(dept *vDeptStore) *vCrewStore {
	def := StoreDefinition[*vTeam]{
		EntityType:      vTeamType,
		EntityStrategy:  vTeamStrategy{},
		EntityNotFoundF: func(id string) error { return NewNotFoundError(vTeamType, "id", id) },
		BasePath:        []string{vRootPath},
	}
	s := &vCrewStore{BaseStore: NewBaseStore(def)}
	s.InitImpl(s)
	s.AddIdSymbol("id", ast.NodeTypeString)
	lead := s.AddFkSymbol("lead", dept)
	s.AddFkConstraint(lead, true, CascadeDelete)
	return s
}

// VerifC04_CascadeFromSeveralStoresAndRepeatedly: a dept is referenced with
// cascading deletes from two stores (emps.boss, per wiring; crews.lead, fk
// constraint). One transaction deletes it, re-creates it together with new
// referrers of both kinds and deletes it again: each delete removes exactly
// the referrers of both stores; entities referencing the other dept stay.
func verifC04CascadeSeveral(cfg vStoreCfg) {
	cfg.fkToDept = true
	cfg.nickNullable = true
	env := verifNewEnv(cfg)
	defer env.close()
	crews := verifNewCrewStore(env.dept)
	env.createDepts("x", "xy")
	x, xy := "x", "xy"
	refs := func(b bool) *string {
		if b {
			return &x
		}
		return &xy
	}
	empX, crewX := verifrt.Bool("emp.refs.x"), verifrt.Bool("crew.refs.x")
	err := env.update(func(ctx MutateContext) error {
		if err := env.emp.Create(ctx, verifEmpFor("a", refs(empX), cfg)); err != nil {
			return err
		}
		return crews.Create(ctx, &vTeam{Id: "t", Lead: refs(crewX)})
	})
	verifrt.Assert(err == nil, "C04 several-stores population setup succeeds")
	again := verifrt.Bool("again")
	emp2X, crew2X := verifrt.Bool("emp2.refs.x"), verifrt.Bool("crew2.refs.x")
	err = env.update(func(ctx MutateContext) error {
		if err := env.dept.DeleteById(ctx, "x"); err != nil {
			return err
		}
		if !again {
			return nil
		}
		// the same transaction (same context): x comes back with new referrers and goes again
		if err := env.dept.Create(ctx, &vDept{Id: "x", Label: "L"}); err != nil {
			return err
		}
		if err := env.emp.Create(ctx, verifEmpFor("ab", refs(emp2X), cfg)); err != nil {
			return err
		}
		if err := crews.Create(ctx, &vTeam{Id: "u", Lead: refs(crew2X)}); err != nil {
			return err
		}
		return env.dept.DeleteById(ctx, "x")
	})
	verifrt.Assert(err == nil, "C04 cascading deletes from several stores succeed")
	env.view(func(tx *bbolt.Tx) {
		_, found, _ := env.dept.FindById(tx, "x")
		verifrt.Assert(!found, "C04 the deleted target is gone")
		_, found, _ = env.emp.FindById(tx, "a")
		verifrt.Assert(found == !empX, "C04 cascade removes exactly the referring emps")
		_, found, _ = crews.FindById(tx, "t")
		verifrt.Assert(found == !crewX, "C04 cascade reaches every referring store")
		if again {
			_, found, _ = env.emp.FindById(tx, "ab")
			verifrt.Assert(found == !emp2X, "C04 a second cascading delete of the same id in the same transaction removes its new referring emps")
			_, found, _ = crews.FindById(tx, "u")
			verifrt.Assert(found == !crew2X, "C04 a second cascading delete of the same id in the same transaction reaches every referring store")
		}
		verifrt.Assert(!verifScanForId(tx, "x"), "C06 after cascading deletes the target's id occurs nowhere")
	})
}

func VerifC04_CascadeFromSeveralStoresFkIndex() {
	verifC04CascadeSeveral(vStoreCfg{fk: vFkIndexCascade})
}
func VerifC04_CascadeFromSeveralStoresFkConstraint() {
	verifC04CascadeSeveral(vStoreCfg{fk: vFkConstraintCascade})
}

func init() {
	verifQueryFamilies = append(verifQueryFamilies, func() []string { return []string{`lead = "x"`, `lead = "xy"`} })
	ast.VerifTemplates = append(ast.VerifTemplates, `lead = "__VERIF_LIT__"`)
}

// the cascade-retry scenario also belongs to C04 (the retried delete must
// delete exactly the referrers), and a target id spliced into the delete
// filter is a string literal in the sense of C11
func VerifC04_CascadeRetriedOnSameContext() { VerifC06_CascadeRetriedOnSameContext() }
func VerifC11_IdSplicedIntoFilterLiteral()  { verifC04Step(vStoreCfg{fk: vFkConstraintCascade}, true) }
