//go:build verif

package boltz

import (
	"encoding/binary"

	"github.com/openziti/storage/verifrt"
)

func verifSymStrings(tag string, maxN, maxLen int) []string {
	n := verifrt.Choose(tag+".n", maxN+1)
	out := make([]string, n)
	for i := 0; i < n; i++ {
		out[i] = verifrt.StringUpTo(tag, maxLen)
	}
	return out
}

func verifStringsEq(a, b []string) bool {
	if len(a) != len(b) {
		return false
	}
	ok := true
	for i := range a {
		ok = verifrt.And(ok, a[i] == b[i])
	}
	return ok
}

// VerifC13_CodecRoundTrip: DecodeStringSlice(EncodeStringSlice(x)) == x for
// every list of <= 3 strings of <= 3 (quick) / 4 (thorough) arbitrary bytes.
func VerifC13_CodecRoundTrip() {
	maxLen := 3
	if verifrt.Tier() == 1 {
		maxLen = 4
	}
	x := verifSymStrings("x", 3, maxLen)
	enc, err := EncodeStringSlice(x)
	verifrt.Assert(err == nil, "C13 encode accepts short components")
	dec, err := DecodeStringSlice(enc)
	verifrt.Assert(err == nil, "C13 decode accepts what encode produced")
	verifrt.Assert(verifStringsEq(dec, x), "C13 decode(encode(x)) == x")
}

// VerifC13_CodecInjective: distinct lists never share an encoding. Checked
// directly (not only as a corollary of the round trip): two lists, encodings
// equal => lists equal.
func VerifC13_CodecInjective() {
	x := verifSymStrings("x", 2, 2)
	y := verifSymStrings("y", 2, 2)
	ex, err1 := EncodeStringSlice(x)
	ey, err2 := EncodeStringSlice(y)
	verifrt.Assume(err1 == nil && err2 == nil)
	same := len(ex) == len(ey)
	if same {
		eq := true
		for i := range ex {
			eq = verifrt.And(eq, ex[i] == ey[i])
		}
		verifrt.Assume(eq)
		verifrt.Assert(verifStringsEq(x, y), "C13 equal encodings come from equal lists")
	} else {
		verifrt.Reach("C13 encodings of different length")
	}
}

// VerifC13_UvarintRoundTrip: the length prefix codec used by the compound-key
// encoding round-trips every uint64 (std code interpreted from source).
func VerifC13_UvarintRoundTrip() {
	v := verifrt.Uint64("v")
	buf := make([]byte, binary.MaxVarintLen64)
	n := binary.PutUvarint(buf, v)
	got, m := binary.Uvarint(buf[:n])
	verifrt.Assert(verifrt.And(got == v, m == n), "C13 uvarint round trip")
}

// VerifC13_CodecLongComponent: component lengths around the one/two byte
// varint boundary (127/128) and the 4096 limit, contents concrete.
func VerifC13_CodecLongComponent() {
	lens := []int{127, 128, 129, 4095, 4096, 4097}
	l := lens[verifrt.Choose("len", len(lens))]
	b := make([]byte, l)
	fill := verifrt.Uint8("fill")
	for i := range b {
		b[i] = fill
	}
	tail := verifrt.StringUpTo("tail", 2)
	x := []string{string(b), tail}
	enc, err := EncodeStringSlice(x)
	if l > MaxLinkedSetKeySize {
		verifrt.Assert(err != nil, "C13 oversize component rejected")
		return
	}
	verifrt.Assert(err == nil, "C13 encode accepts components up to the limit")
	dec, err := DecodeStringSlice(enc)
	verifrt.Assert(err == nil, "C13 decode long ok")
	verifrt.Assert(verifStringsEq(dec, x), "C13 long decode(encode(x)) == x")
}
