//go:build verif

package boltz

import (
	"bytes"

	"go.etcd.io/bbolt"

	"github.com/openziti/storage/ast"
	"github.com/openziti/storage/verifrt"
)

// verifScanForId walks the whole database (every bucket, key and value) and
// reports whether id occurs anywhere, bare or with the string type tag.
func verifScanForId(tx *bbolt.Tx, id string) bool {
	found := false
	bare, typed := []byte(id), PrependFieldType(TypeString, []byte(id))
	var walk func(c *bbolt.Cursor, get func(k []byte) *bbolt.Bucket)
	walk = func(c *bbolt.Cursor, get func(k []byte) *bbolt.Bucket) {
		for k, v := c.First(); k != nil; k, v = c.Next() {
			found = verifrt.Or(found, verifrt.Or(bytes.Equal(k, bare), bytes.Equal(k, typed)))
			if v != nil {
				found = verifrt.Or(found, verifrt.Or(bytes.Equal(v, bare), bytes.Equal(v, typed)))
				continue
			}
			if sub := get(k); sub != nil {
				walk(sub.Cursor(), sub.Bucket)
			}
		}
	}
	walk(tx.Cursor(), tx.Bucket)
	return found
}

const vVictim = "victim-id"

// VerifC06_DeleteLeavesNoTrace: an emp that is indexed (unique, nullable
// unique, set index), references a dept through an fk index (back-reference on
// the dept), is linked and ref-count-linked to a dept, and may carry child
// store data, is deleted through the parent or the child store. Afterwards
// its id occurs nowhere in the database, the repository's own ValidateDeleted
// agrees, the other entities are untouched, and the id can be created again
// like a first creation.
func VerifC06_DeleteLeavesNoTrace() {
	cfg := vStoreCfg{nickNullable: true, fk: vFkIndexNullable, fkToDept: true, links: true}
	env := verifNewEnv(cfg)
	defer env.close()
	mgr := verifNewMgrStore(env.emp, false)
	env.createDepts(vDeptIds...)
	// a bystander emp that shares values / targets with the victim where possible
	other := &vEmp{Id: "b", Name: "Nb", Roles: []string{"r1"}}
	bx := "x"
	other.Boss = &bx
	err := env.update(func(ctx MutateContext) error {
		if err := env.emp.Create(ctx, other); err != nil {
			return err
		}
		if err := env.emp.depts.AddLinks(ctx.Tx(), "b", "x"); err != nil {
			return err
		}
		_, err := env.emp.rcDepts.IncrementLinkCount(ctx.Tx(), []byte("b"), []byte("x"))
		return err
	})
	verifrt.Assert(err == nil, "C06 bystander setup succeeds")

	v := &vEmp{Id: vVictim}
	v.Name = verifrt.String("name", 1)
	verifrt.Assume(v.Name != "N") // distinct from the bystander's name prefix byte is enough: names are 1 vs 2 bytes
	v.Nick = verifSymOptString("nick", 1)
	if verifrt.Bool("role.r1") {
		v.Roles = append(v.Roles, "r1")
	}
	if verifrt.Bool("role.r2") {
		v.Roles = append(v.Roles, "r2")
	}
	if verifrt.Bool("boss.set") {
		d := vDeptIds[verifrt.Choose("boss", 2)]
		v.Boss = &d
	}
	child := verifrt.Bool("child")
	var links []string
	for _, d := range vDeptIds {
		if verifrt.Bool("link." + d) {
			links = append(links, d)
		}
	}
	rc := verifrt.Choose("rc", 3) // ref count 0, 1 or 2 towards x
	err = env.update(func(ctx MutateContext) error {
		var err error
		if child {
			err = mgr.Create(ctx, &vMgr{vEmp: *v, Lead: true})
		} else {
			err = env.emp.Create(ctx, v)
		}
		if err != nil {
			return err
		}
		if err = env.emp.depts.AddLinks(ctx.Tx(), vVictim, links...); err != nil {
			return err
		}
		for i := 0; i < rc; i++ {
			if _, err = env.emp.rcDepts.IncrementLinkCount(ctx.Tx(), []byte(vVictim), []byte("x")); err != nil {
				return err
			}
		}
		return nil
	})
	verifrt.Assert(err == nil, "C06 victim setup succeeds")
	env.view(func(tx *bbolt.Tx) {
		verifrt.Assert(verifScanForId(tx, vVictim), "C06 the victim's id is in the database before the delete")
	})

	viaChild := verifrt.Bool("viachild")
	if viaChild && !child {
		verifrt.Outside("delete through the child store of an entity without child data (not constrained)")
	}
	err = env.update(func(ctx MutateContext) error {
		if viaChild {
			return mgr.DeleteById(ctx, vVictim)
		}
		return env.emp.DeleteById(ctx, vVictim)
	})
	verifrt.Assert(err == nil, "C06 deleting an entity nothing restricts succeeds")
	env.view(func(tx *bbolt.Tx) {
		verifrt.Assert(!verifScanForId(tx, vVictim), "C06 after the committed delete the id occurs nowhere in the database")
		verifrt.Assert(ValidateDeleted(tx, vVictim) == nil, "C06 ValidateDeleted finds no trace")
		// the bystander is untouched
		b, found, err := env.emp.FindById(tx, "b")
		verifrt.Assert(err == nil && found && b.Name == "Nb" && strPtrEq(b.Boss, &bx), "C06 other entities are untouched")
		verifrt.Assert(env.emp.depts.IsLinked(tx, []byte("b"), []byte("x")), "C06 other entities keep their links")
		l, r := env.emp.rcDepts.GetLinkCounts(tx, []byte("b"), []byte("x"))
		verifrt.Assert(l != nil && r != nil && *l == 1 && *r == 1, "C06 other entities keep their ref-counted links")
	})
	// nothing the victim shared with others went with it: every index and link
	// still mirrors the remaining entities (the repository's own checker, which
	// C09 shows reports every class of mismatch)
	rep, ierr := env.checkIntegrity(false)
	verifrt.Assert(ierr == nil && rep.total == 0, "C06 after the delete the indexes and links still mirror the remaining entities")
	// the id can be created again and behaves like a first creation
	again := &vEmp{Id: vVictim, Name: v.Name, Nick: v.Nick, Roles: v.Roles, Boss: v.Boss}
	err = env.update(func(ctx MutateContext) error { return env.emp.Create(ctx, again) })
	verifrt.Assert(err == nil, "C06 the id (and its old unique values) can be used again")
	env.view(func(tx *bbolt.Tx) {
		verifrt.Assert(len(env.emp.depts.GetLinks(tx, vVictim)) == 0, "C06 the re-created entity starts without links")
		verifrt.Assert(env.emp.rcDepts.GetLinkCount(tx, []byte(vVictim), []byte("x")) == nil, "C06 the re-created entity starts without ref-counted links")
		verifrt.Assert(mgr.GetEntityBucket(tx, []byte(vVictim)) == nil, "C06 the re-created entity has no child data")
	})
}

// VerifC06_DeleteTargetLeavesNoTrace: the same for a dept that is linked and
// ref-count-linked from emps (and not referenced through the restricting fk).
func VerifC06_DeleteTargetLeavesNoTrace() {
	cfg := vStoreCfg{nickNullable: true, fk: vFkIndexNullable, fkToDept: true, links: true}
	env := verifNewEnv(cfg)
	defer env.close()
	env.createDepts(vVictim, "y")
	env.createEmps("a", "b")
	for _, e := range []string{"a", "b"} {
		linked := verifrt.Bool("link." + e)
		rc := verifrt.Choose("rc."+e, 3)
		err := env.update(func(ctx MutateContext) error {
			if linked {
				if err := env.dept.members.AddLinks(ctx.Tx(), vVictim, e); err != nil {
					return err
				}
			}
			for i := 0; i < rc; i++ {
				if _, err := env.dept.rcMembers.IncrementLinkCount(ctx.Tx(), []byte(vVictim), []byte(e)); err != nil {
					return err
				}
			}
			return nil
		})
		verifrt.Assert(err == nil, "C06 link setup succeeds")
	}
	err := env.update(func(ctx MutateContext) error { return env.dept.DeleteById(ctx, vVictim) })
	verifrt.Assert(err == nil, "C06 deleting an unreferenced target succeeds")
	env.view(func(tx *bbolt.Tx) {
		verifrt.Assert(!verifScanForId(tx, vVictim), "C06 after the committed delete the target's id occurs nowhere")
		verifrt.Assert(ValidateDeleted(tx, vVictim) == nil, "C06 ValidateDeleted finds no trace of the target")
	})
}

// VerifC06_SameIdInBothStores: ids are per store. An emp and a dept with the
// same id reference / link each other; deleting the emp removes the emp's
// traces (the dept's back-references to it included) and leaves the dept.
func VerifC06_SameIdInBothStores() {
	cfg := vStoreCfg{nickNullable: true, fk: vFkIndexNullable, fkToDept: true, links: true}
	env := verifNewEnv(cfg)
	defer env.close()
	const same = "s"
	env.createDepts(same, "x")
	boss := []string{same, "x"}[verifrt.Choose("boss", 2)]
	linked := verifrt.Bool("link")
	err := env.update(func(ctx MutateContext) error {
		if err := env.emp.Create(ctx, &vEmp{Id: same, Name: "Ns", Boss: &boss, Roles: []string{"r1"}}); err != nil {
			return err
		}
		if linked {
			return env.emp.depts.AddLinks(ctx.Tx(), same, same)
		}
		return nil
	})
	verifrt.Assert(err == nil, "C06 same-id setup succeeds")
	err = env.update(func(ctx MutateContext) error { return env.emp.DeleteById(ctx, same) })
	verifrt.Assert(err == nil, "C06 deleting the emp succeeds")
	env.view(func(tx *bbolt.Tx) {
		verifrt.Assert(env.emp.GetEntityBucket(tx, []byte(same)) == nil, "C06 the emp is gone")
		for _, d := range []string{same, "x"} {
			db := env.dept.GetEntityBucket(tx, []byte(d))
			verifrt.Assert(db != nil, "C06 the dept with the same id is left alone")
			if db == nil {
				continue
			}
			verifrt.Assert(!verifRawLinked(db, vFEmps, same), "C06 no back-reference to the deleted emp remains on dept "+d)
			verifrt.Assert(!verifRawLinked(db, vFMembers, same), "C06 no link to the deleted emp remains on dept "+d)
		}
		verifrt.Assert(len(env.dept.members.GetLinks(tx, same)) == 0, "C06 the dept's link collection does not list the deleted emp")
	})
	rep, ierr := env.checkIntegrity(false)
	verifrt.Assert(ierr == nil && rep.total == 0, "C06 same ids: indexes and links mirror the remaining entities")
}

// a cascading delete inside a transaction that already wrote to the referrers'
// store (see verifC04CascadeInWritingTx): no reference to the deleted id stays
func VerifC06_CascadeInWritingTx() {
	verifC04CascadeInWritingTx(vStoreCfg{fk: []int{vFkIndexCascade, vFkConstraintCascade}[verifrt.Choose("wiring", 2)]})
}

// cascading deletes from two referring stores, repeated for one id inside one
// transaction (see verifC04CascadeSeveral): no reference to the id stays
func VerifC06_CascadeFromSeveralStores() {
	verifC04CascadeSeveral(vStoreCfg{fk: []int{vFkIndexCascade, vFkConstraintCascade}[verifrt.Choose("wiring", 2)]})
}

// VerifC06_DeleteInTheTransactionThatLinked: the victim is linked (and
// ref-count-linked) to four adjacent depts and deleted in the SAME transaction
// (its link buckets are live nodes while the delete walks them): no dept keeps it.
func VerifC06_DeleteInTheTransactionThatLinked() {
	cfg := vStoreCfg{nickNullable: true, links: true}
	env := verifNewEnv(cfg)
	defer env.close()
	depts := []string{"d1", "d2", "d3", "d4"}
	env.createDepts(depts...)
	env.createEmps(vVictim)
	var linked []string
	for _, d := range depts {
		if verifrt.Bool("linked") {
			linked = append(linked, d)
		}
	}
	viaOther := verifrt.Bool("linked.from.dept.side")
	err := env.update(func(ctx MutateContext) error {
		for _, d := range linked {
			var err error
			if viaOther {
				err = env.dept.members.AddLinks(ctx.Tx(), d, vVictim)
			} else {
				err = env.emp.depts.AddLinks(ctx.Tx(), vVictim, d)
			}
			if err != nil {
				return err
			}
			if _, err = env.emp.rcDepts.IncrementLinkCount(ctx.Tx(), []byte(vVictim), []byte(d)); err != nil {
				return err
			}
		}
		return env.emp.DeleteById(ctx, vVictim)
	})
	verifrt.Assert(err == nil, "C06 link and delete in one transaction succeeds")
	env.view(func(tx *bbolt.Tx) {
		verifrt.Assert(!verifScanForId(tx, vVictim), "C06 deleted in the transaction that linked it, the id occurs nowhere")
	})
}

// VerifC06_DeleteWhere: DeleteWhere removes exactly the entities matching the
// filter, each without a trace, and leaves the others intact.
func VerifC06_DeleteWhere() {
	cfg := vStoreCfg{nickNullable: true, links: true}
	env := verifNewEnv(cfg)
	defer env.close()
	env.createDepts("x")
	n := 3
	has := make([]bool, n)
	for i := 0; i < n; i++ {
		has[i] = verifrt.Bool("role.r1")
		e := &vEmp{Id: "victim" + vIds[i], Name: "N" + vIds[i], Roles: []string{"r2"}}
		if has[i] {
			e.Roles = []string{"r1", "r2"}
		}
		err := env.update(func(ctx MutateContext) error {
			if err := env.emp.Create(ctx, e); err != nil {
				return err
			}
			return env.emp.depts.AddLinks(ctx.Tx(), e.Id, "x")
		})
		verifrt.Assert(err == nil, "C06 DeleteWhere population setup succeeds")
	}
	err := env.update(func(ctx MutateContext) error { return env.emp.DeleteWhere(ctx, `anyOf(roles) = "r1"`) })
	verifrt.Assert(err == nil, "C06 DeleteWhere succeeds")
	env.view(func(tx *bbolt.Tx) {
		for i := 0; i < n; i++ {
			id := "victim" + vIds[i]
			verifrt.Assert(verifScanForId(tx, id) == !has[i], "C06 DeleteWhere removes exactly the matching entities, leaving no trace of them")
		}
	})
	rep, ierr := env.checkIntegrity(false)
	verifrt.Assert(ierr == nil && rep.total == 0, "C06 after DeleteWhere the indexes and links mirror the remaining entities")
}

func init() {
	verifQueryFamilies = append(verifQueryFamilies, func() []string { return []string{`anyOf(roles) = "r1"`} })
}

// second child store with an index of its own
type vTransit struct {
	vEmp
	Token string
}

type vTransitStrategy struct{ parent *vEmpStore }

func (s *vTransitStrategy) NewEntity() *vTransit { return new(vTransit) }
func (s *vTransitStrategy) FillEntity(e *vTransit, b *TypedBucket) {
	_, err := s.parent.LoadEntity(b.Tx(), e.Id, &e.vEmp)
	b.SetError(err)
	e.Token = b.GetStringOrError("token")
}
func (s *vTransitStrategy) PersistEntity(e *vTransit, ctx *PersistContext) {
	s.parent.GetEntityStrategy().PersistEntity(&e.vEmp, ctx.GetParentContext())
	ctx.SetString("token", e.Token)
}

type vTransitStore struct {
	*BaseStore[*vTransit]
}

func verifNewTransitStore(parent *vEmpStore) *vTransitStore {
	def := StoreDefinition[*vTransit]{
		EntityStrategy:  &vTransitStrategy{parent: parent},
		EntityNotFoundF: func(id string) error { return NewNotFoundError(parent.GetSingularEntityType(), "id", id) },
		BasePath:        []string{"transit"},
		Parent:          parent,
		ParentMapper: func(e Entity) Entity {
			if m, ok := e.(*vTransit); ok {
				return &m.vEmp
			}
			return e
		},
	}
	s := &vTransitStore{BaseStore: NewBaseStore(def)}
	s.InitImpl(s)
	parent.GrantSymbols(s)
	s.AddUniqueIndex(s.AddSymbol("token", ast.NodeTypeString))
	parent.RegisterChildStoreStrategy(&ChildStoreUpdateHandler[*vEmp, *vTransit]{
		Store: s,
		Mapper: func(ctx MutateContext, p *vEmp) (*vTransit, bool) {
			if !s.IsEntityPresent(ctx.Tx(), p.Id) {
				return nil, false
			}
			m, found, _ := s.FindById(ctx.Tx(), p.Id)
			if !found {
				return nil, false
			}
			m.vEmp = *p
			return m, true
		},
	})
	return s
}

// VerifC06_SeveralChildStores: a parent with an extended child store and a
// second child store that owns a unique index; an entity of the second child
// store is deleted through the parent (or either child) store.
func VerifC06_SeveralChildStores() {
	cfg := vStoreCfg{nickNullable: true}
	env := verifNewEnv(cfg)
	defer env.close()
	ext := verifNewMgrStore(env.emp, true)
	transit := verifNewTransitStore(env.emp)
	err := env.update(func(ctx MutateContext) error {
		h := &vErrHolder{}
		transit.InitializeIndexes(ctx.Tx(), h)
		return h.err
	})
	verifrt.Assert(err == nil, "C06 child index initialisation succeeds")
	tok := verifrt.String("token", 1)
	err = env.update(func(ctx MutateContext) error {
		return transit.Create(ctx, &vTransit{vEmp: vEmp{Id: vVictim, Name: "Nv"}, Token: tok})
	})
	verifrt.Assert(err == nil, "C06 creating through the second child store succeeds")
	via := verifrt.Choose("via", 3)
	err = env.update(func(ctx MutateContext) error {
		switch via {
		case 0:
			return env.emp.DeleteById(ctx, vVictim)
		case 1:
			return ext.DeleteById(ctx, vVictim)
		}
		return transit.DeleteById(ctx, vVictim)
	})
	verifrt.Assert(err == nil, "C06 delete through any store of the family succeeds")
	env.view(func(tx *bbolt.Tx) {
		verifrt.Assert(!verifScanForId(tx, vVictim), "C06 no trace of the id in any child store's data or indexes")
	})
	err = env.update(func(ctx MutateContext) error {
		return transit.Create(ctx, &vTransit{vEmp: vEmp{Id: "again", Name: "Nv"}, Token: tok})
	})
	verifrt.Assert(err == nil, "C06 the deleted entity's unique values are free again")
}
