//go:build verif

package boltz

import (
	"strings"
	"time"

	"go.etcd.io/bbolt"

	"github.com/openziti/storage/ast"
	"github.com/openziti/storage/verifrt"
)

var vC10StoreQueries = []string{
	"true", "s = \"x\"", "true sort by s", "true sort by i desc, s", "true sort by id desc", "true skip 1 limit 1",
	"isEmpty(roles)", "anyOf(roles) = \"a\"", "count(reports) = 0", "boss.s = \"x\"", "tags.k = 1",
	"isEmpty(from reports where s = \"x\")", "true sort by s skip 2", "s icontains \"x\" sort by s",
	"true sort by i", "true sort by s desc, i", "true sort by boss", "true sort by tags.k",
	"true sort by s limit 0", "true sort by i desc skip 1 limit 0", "true limit 0", "true sort by s skip -1 limit 1",
	// a set symbol reached through a foreign key (composite set symbol), as a
	// scalar inside a sub-query and under a null test of its count
	"count(from reports where boss.roles = \"a\") > 0", "isEmpty(from reports where boss.roles != null)",
	"count(boss.roles) = null", "count(boss.roles) != null", "count(reports.roles) = null", "anyOf(boss.roles) = \"a\"",
	"count(from reports where true) = 0", "isEmpty(from roles where true)", "not isEmpty(from reports where boss = null)",
}

func init() {
	verifQueryFamilies = append(verifQueryFamilies, func() []string { return vC10StoreQueries })
}

// VerifC10_QueriesOnEmptyAndNullData: every query shape runs without
// panicking on a store that has never been written to, on a store that was
// filled and emptied again, and on entities all of whose fields are null.
func VerifC10_QueriesOnEmptyAndNullData() {
	q := vC10StoreQueries[verifrt.Choose("query", len(vC10StoreQueries))]
	state := verifrt.Choose("state", 5) // 0 never written, 1 filled then emptied, 2 one entity with all fields null, 3 three such entities (sorting compares null with null)
	env := verifNewEnv(vStoreCfg{nickNullable: true})
	defer env.close()
	store := verifNewPersonStore()
	if state >= 1 {
		err := env.update(func(ctx MutateContext) error { return store.Create(ctx, &vPerson{Id: "a"}) })
		verifrt.Assert(err == nil, "C10 setup create succeeds")
	}
	if state == 4 {
		// ordinary data: two entities with values in every field
		err := env.update(func(ctx MutateContext) error {
			sv, iv, boss := "x", int64(1), "a"
			if err := store.Create(ctx, &vPerson{Id: "ab", S: &sv, I: &iv, Roles: []string{"a"}, Tag: int64(1)}); err != nil {
				return err
			}
			return store.Create(ctx, &vPerson{Id: "b", S: &sv, I: &iv, Boss: &boss, Roles: []string{"b"}, Tag: "v"})
		})
		verifrt.Assert(err == nil, "C10 setup creates succeed")
	}
	if state == 3 {
		err := env.update(func(ctx MutateContext) error {
			if err := store.Create(ctx, &vPerson{Id: "ab"}); err != nil {
				return err
			}
			return store.Create(ctx, &vPerson{Id: "b"})
		})
		verifrt.Assert(err == nil, "C10 setup creates succeed")
	}
	if state == 1 {
		err := env.update(func(ctx MutateContext) error { return store.DeleteById(ctx, "a") })
		verifrt.Assert(err == nil, "C10 setup delete succeeds")
	}
	env.view(func(tx *bbolt.Tx) {
		panicked, msg := verifrt.Catch(func() {
			_, _, err := store.QueryIds(tx, q)
			_ = err
			if parsed, perr := ast.Parse(store, q); perr == nil {
				for c := store.IterateIds(tx, parsed); c.IsValid(); c.Next() {
				}
				for c := store.IterateValidIds(tx, parsed); c.IsValid(); c.Next() {
				}
			}
		})
		verifrt.Logf("panic message (if any): %v", msg) // not part of the label: executor and native wording differ
		verifrt.Assert(!panicked, "C10 querying an empty store / null fields does not panic: "+q+"")
	})
}

// ---- every left-operand kind the person store offers x every use ----

var vC10StoreLhs = []string{"s", "i", "f", "o", "d", "n", "xs", "xb", "nn", "boss.f", "reports.d", "id", "roles", "boss", "boss.s", "boss.roles", "boss.boss.roles", "reports", "reports.s", "reports.roles", "reports.reports", "tags.k", "tags", "nosuch", "boss.nosuch"}

func verifC10StoreShapes() []string {
	var qs []string
	for _, l := range vC10StoreLhs {
		for _, w := range []string{"%s", "anyOf(%s)", "allOf(%s)", "count(%s)"} {
			lhs := strings.Replace(w, "%s", l, 1)
			for _, r := range []string{`= "a"`, `!= null`, `= null`, `> 1`, `in ["a", "b"]`, `contains "a"`, `between 1 and 3`} {
				qs = append(qs, lhs+" "+r)
			}
		}
		qs = append(qs, "isEmpty("+l+")", "not isEmpty("+l+")", `isEmpty(from reports where `+l+` = "a")`, `count(from reports where `+l+` != null) > 0`,
			`count(from `+l+` where true) > 0`, "true sort by "+l, "true sort by "+l+" desc limit 1")
	}
	return qs
}

func init() {
	verifQueryFamilies = append(verifQueryFamilies, verifC10StoreShapes)
}

// VerifC10_StoreQueryShapes: every kind of symbol the store offers (scalar, id,
// set, foreign key, dotted scalar, set reached through a foreign key, set of
// sets, map element, map, unknown) in every position (bare, under anyOf /
// allOf / count / isEmpty, inside a sub-query's filter, as sub-query source, as
// sort field) with every operator form: typing returns a query or an error,
// and a typed query runs without panicking on entities whose fields are all
// null and on entities that reference each other.
func VerifC10_StoreQueryShapes() {
	qs := verifC10StoreShapes()
	q := qs[verifrt.Choose("query", len(qs))]
	withData := verifrt.Bool("data")
	env := verifNewEnv(vStoreCfg{nickNullable: true})
	defer env.close()
	store := verifNewPersonStore()
	err := env.update(func(ctx MutateContext) error {
		if err := store.Create(ctx, &vPerson{Id: "a"}); err != nil {
			return err
		}
		if !withData {
			return store.Create(ctx, &vPerson{Id: "ab"})
		}
		// "a" (smallest id) has every field null; the others carry values
		sv, iv, boss, fv, ov, nv := "a", int64(1), "a", 1.5, true, int32(-1)
		dv := time.Date(2020, 1, 2, 3, 4, 5, 0, time.UTC)
		if err := store.Create(ctx, &vPerson{Id: "ab", S: &sv, I: &iv, Boss: &boss, Roles: []string{"a"}, Tag: int64(1), F: &fv, O: &ov, D: &dv, N: &nv}); err != nil {
			return err
		}
		b2 := "ab"
		return store.Create(ctx, &vPerson{Id: "b", S: &sv, Boss: &b2, Roles: []string{"a", "b"}, Tag: "a", F: &fv, D: &dv})
	})
	verifrt.Assert(err == nil, "C10 setup creates succeed")
	env.view(func(tx *bbolt.Tx) {
		panicked, msg := verifrt.Catch(func() {
			_, _, _ = store.QueryIds(tx, q)
			if parsed, perr := ast.Parse(store, q); perr == nil {
				for c := store.IterateIds(tx, parsed); c.IsValid(); c.Next() {
				}
			}
		})
		verifrt.Logf("panic message (if any): %v", msg)
		verifrt.Assert(!panicked, "C10 a query over any symbol kind in any position is typed or rejected and runs without panicking: "+q)
	})
}
