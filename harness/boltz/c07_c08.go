//go:build verif

package boltz

import (
	"context"
	"errors"

	"go.etcd.io/bbolt"

	"github.com/openziti/storage/verifrt"
)

// ---- event recording ----

type vEvent struct {
	store  int // 0 emp (parent) store, 1 mgr (child) store
	style  int // registration style, see below
	id     string
	name   string
	ctype  EntityEventType // constraints only
	parent bool            // constraints only: flagged as parent event
}

type vEventLog struct {
	events     []vEvent
	commits    int
	txComplete int
	veto       [4]bool // by EntityEventType (1..3): emp-store constraint vetoes
}

const (
	vStyleTyped = iota
	vStyleFunc
	vStyleUntyped
	vStyleId
	vStyleConstraint
	vStyleUntypedConstraint
)

type vEmpListener struct{ log *vEventLog }

func (l *vEmpListener) HandleEntityEvent(e *vEmp) {
	l.log.events = append(l.log.events, vEvent{store: 0, style: vStyleTyped, id: e.Id, name: e.Name})
}

type vMgrListener struct{ log *vEventLog }

func (l *vMgrListener) HandleEntityEvent(e *vMgr) {
	l.log.events = append(l.log.events, vEvent{store: 1, style: vStyleTyped, id: e.Id, name: e.Name})
}

type vEmpConstraint struct{ log *vEventLog }

func (c *vEmpConstraint) ProcessPreCommit(state *EntityChangeState[*vEmp]) error {
	if c.log.veto[state.ChangeType] {
		return errors.New("verif: vetoed by entity constraint")
	}
	return nil
}

func (c *vEmpConstraint) ProcessPostCommit(state *EntityChangeState[*vEmp]) {
	e := state.FinalState
	if state.ChangeType == EntityDeleted {
		e = state.InitialState
	}
	c.log.events = append(c.log.events, vEvent{store: 0, style: vStyleConstraint, id: state.EntityId, name: e.Name, ctype: state.ChangeType, parent: state.ParentEvent})
}

type vMgrConstraint struct{ log *vEventLog }

func (c *vMgrConstraint) ProcessPreCommit(*EntityChangeState[*vMgr]) error { return nil }
func (c *vMgrConstraint) ProcessPostCommit(state *EntityChangeState[*vMgr]) {
	e := state.FinalState
	if state.ChangeType == EntityDeleted {
		e = state.InitialState
	}
	c.log.events = append(c.log.events, vEvent{store: 1, style: vStyleConstraint, id: state.EntityId, name: e.Name, ctype: state.ChangeType, parent: state.ParentEvent})
}

type vUntypedConstraint struct {
	log   *vEventLog
	store int
}

func (c *vUntypedConstraint) ProcessPreCommit(UntypedEntityChangeState) error { return nil }
func (c *vUntypedConstraint) ProcessPostCommit(state UntypedEntityChangeState) {
	var e Entity = state.GetFinalState()
	if state.GetChangeType() == EntityDeleted {
		e = state.GetInitialState()
	}
	name := ""
	switch x := e.(type) {
	case *vEmp:
		name = x.Name
	case *vMgr:
		name = x.Name
	}
	c.log.events = append(c.log.events, vEvent{store: c.store, style: vStyleUntypedConstraint, id: state.GetEntityId(), name: name, ctype: state.GetChangeType(), parent: state.IsParentEvent()})
}

func verifEntityName(e Entity) string {
	switch x := e.(type) {
	case *vEmp:
		return x.Name
	case *vMgr:
		return x.Name
	}
	return ""
}

func verifRegisterListeners(emp *vEmpStore, mgr *vMgrStore, log *vEventLog) {
	all := []EntityEventType{EntityUpdated, EntityDeleted}
	emp.AddEntityEventListener(&vEmpListener{log}, EntityCreated, all...)
	emp.AddEntityEventListenerF(func(e *vEmp) {
		log.events = append(log.events, vEvent{store: 0, style: vStyleFunc, id: e.Id, name: e.Name})
	}, EntityCreated, all...)
	emp.AddListener(func(e Entity) {
		log.events = append(log.events, vEvent{store: 0, style: vStyleUntyped, id: e.GetId(), name: verifEntityName(e)})
	}, EntityCreated, all...)
	emp.AddEntityIdListener(func(id string) {
		log.events = append(log.events, vEvent{store: 0, style: vStyleId, id: id})
	}, EntityCreated, all...)
	emp.AddEntityConstraint(&vEmpConstraint{log})
	emp.AddUntypedEntityConstraint(&vUntypedConstraint{log, 0})

	mgr.AddEntityEventListener(&vMgrListener{log}, EntityCreated, all...)
	mgr.AddEntityEventListenerF(func(e *vMgr) {
		log.events = append(log.events, vEvent{store: 1, style: vStyleFunc, id: e.Id, name: e.Name})
	}, EntityCreated, all...)
	mgr.AddListener(func(e Entity) {
		log.events = append(log.events, vEvent{store: 1, style: vStyleUntyped, id: e.GetId(), name: verifEntityName(e)})
	}, EntityCreated, all...)
	mgr.AddEntityIdListener(func(id string) {
		log.events = append(log.events, vEvent{store: 1, style: vStyleId, id: id})
	}, EntityCreated, all...)
	mgr.AddEntityConstraint(&vMgrConstraint{log})
	mgr.AddUntypedEntityConstraint(&vUntypedConstraint{log, 1})
}

// expected records of one committed change
func verifExpectEvents(out []vEvent, ctype EntityEventType, id, name string, isMgr bool) []vEvent {
	for _, store := range []int{0, 1} {
		if store == 1 && !isMgr {
			continue
		}
		for style := vStyleTyped; style <= vStyleUntypedConstraint; style++ {
			ev := vEvent{store: store, style: style, id: id, name: name}
			if style == vStyleId {
				ev.name = ""
			}
			if style >= vStyleConstraint {
				ev.ctype = ctype
				ev.parent = store == 0 && isMgr
			}
			out = append(out, ev)
		}
	}
	return out
}

func verifEventsEqual(got, want []vEvent) bool {
	if len(got) != len(want) {
		return false
	}
	ok := true
	for i := range got {
		g, w := got[i], want[i]
		if g.store != w.store || g.style != w.style || g.id != w.id || g.ctype != w.ctype || g.parent != w.parent {
			return false
		}
		ok = verifrt.And(ok, g.name == w.name)
	}
	return ok
}

// ---- transaction bodies ----

type vTxOp struct {
	kind int // 0 create emp, 1 create mgr, 2 update via emp store, 3 update via mgr store, 4 delete via emp store, 5 delete via mgr store, 6 create with blank id, 7 field-restricted update
	slot int
	name string
}

func verifC07Body(nOps int, batch bool, faults bool, label string) {
	nSlots := 2
	env := verifNewEnv(vStoreCfg{nickNullable: true})
	defer env.close()
	mgr := verifNewMgrStore(env.emp, false)
	log := &vEventLog{}
	verifRegisterListeners(env.emp, mgr, log)
	env.db.AddTxCompleteListener(func(MutateContext) { log.txComplete++ })

	// arbitrary population (built without vetoes)
	slots := make([]vPCSlot, nSlots)
	for i := range slots {
		slots[i].kind = verifrt.Choose("kind", 3)
		if slots[i].kind == 0 {
			continue
		}
		slots[i].name = verifrt.String("name", 1)
		for j := 0; j < i; j++ {
			if slots[j].kind != 0 {
				verifrt.Assume(slots[j].name != slots[i].name)
			}
		}
		s := slots[i]
		err := env.update(func(ctx MutateContext) error {
			if s.kind == 1 {
				return env.emp.Create(ctx, &vEmp{Id: vIds[i], Name: s.name})
			}
			return mgr.Create(ctx, &vMgr{vEmp: vEmp{Id: vIds[i], Name: s.name}})
		})
		verifrt.Assert(err == nil, label+" population setup succeeds")
	}
	log.events, log.commits, log.txComplete = nil, 0, 0

	// symbolic failure schedule
	callerErr := verifrt.Bool("caller.error")
	var preCommitFails [2]bool
	if faults {
		log.veto[EntityCreated] = verifrt.Bool("veto.create")
		log.veto[EntityUpdated] = verifrt.Bool("veto.update")
		log.veto[EntityDeleted] = verifrt.Bool("veto.delete")
		preCommitFails = [2]bool{verifrt.Bool("precommit0.fails"), verifrt.Bool("precommit1.fails")}
	}

	ops := make([]vTxOp, nOps)
	for k := range ops {
		ops[k].kind = verifrt.Choose("op", 8)
		ops[k].slot = verifrt.Choose("slot", nSlots)
		if ops[k].kind <= 3 || ops[k].kind >= 6 {
			ops[k].name = verifrt.String("opname", 1)
		}
	}

	// reference model: run the body on the abstract state
	cur := append([]vPCSlot{}, slots...)
	var want []vEvent
	bodyFails := false
	opRejected := make([]bool, nOps)
	executed := 0
	for k, op := range ops {
		executed = k + 1
		j := op.slot
		taken := false
		for i, s := range cur {
			if i != j && s.kind != 0 {
				taken = verifrt.Or(taken, s.name == op.name)
			}
		}
		switch op.kind {
		case 0, 1:
			if op.kind == 1 && cur[j].kind == 1 {
				verifrt.Outside("create through the child store of an id that exists as a plain parent entity (not constrained)")
			}
			if cur[j].kind != 0 || taken || log.veto[EntityCreated] {
				opRejected[k] = true
			} else {
				cur[j] = vPCSlot{kind: 1 + op.kind, name: op.name}
				want = verifExpectEvents(want, EntityCreated, vIds[j], op.name, op.kind == 1)
			}
		case 2, 3:
			if cur[j].kind == 0 || (op.kind == 3 && cur[j].kind != 2) || taken || log.veto[EntityUpdated] {
				opRejected[k] = true
			} else {
				cur[j].name = op.name
				want = verifExpectEvents(want, EntityUpdated, vIds[j], op.name, cur[j].kind == 2)
			}
		case 4, 5:
			if op.kind == 5 && cur[j].kind == 1 {
				verifrt.Outside("delete through the child store of an entity without child data (not constrained)")
			}
			if cur[j].kind == 0 || log.veto[EntityDeleted] {
				opRejected[k] = true
			} else {
				want = verifExpectEvents(want, EntityDeleted, vIds[j], cur[j].name, cur[j].kind == 2)
				cur[j] = vPCSlot{}
			}
		case 6:
			opRejected[k] = true // blank id is never usable
		case 7: // update restricted to the roles field: the name passed in is not written
			if cur[j].kind == 0 || log.veto[EntityUpdated] {
				opRejected[k] = true
			} else {
				want = verifExpectEvents(want, EntityUpdated, vIds[j], cur[j].name, cur[j].kind == 2)
			}
		}
		if opRejected[k] {
			bodyFails = true
			break
		}
	}
	if !bodyFails && callerErr {
		bodyFails = true
	}
	txFails := bodyFails || preCommitFails[0] || preCommitFails[1]

	// the real transaction
	opErr := make([]error, nOps)
	ran := 0
	body := func(ctx MutateContext) error {
		ctx.AddCommitAction(func() { log.commits++ })
		ctx.AddPreCommitAction(func(MutateContext) error {
			if preCommitFails[0] {
				return errors.New("verif: pre-commit action 0 fails")
			}
			return nil
		})
		ctx.AddPreCommitAction(func(MutateContext) error {
			if preCommitFails[1] {
				return errors.New("verif: pre-commit action 1 fails")
			}
			return nil
		})
		for k, op := range ops {
			ran = k + 1
			id := vIds[op.slot]
			var err error
			switch op.kind {
			case 0:
				err = env.emp.Create(ctx, &vEmp{Id: id, Name: op.name})
			case 1:
				err = mgr.Create(ctx, &vMgr{vEmp: vEmp{Id: id, Name: op.name}})
			case 2:
				err = env.emp.Update(ctx, &vEmp{Id: id, Name: op.name}, nil)
			case 3:
				err = mgr.Update(ctx, &vMgr{vEmp: vEmp{Id: id, Name: op.name}}, nil)
			case 4:
				err = env.emp.DeleteById(ctx, id)
			case 5:
				err = mgr.DeleteById(ctx, id)
			case 6:
				err = env.emp.Create(ctx, &vEmp{Id: "", Name: op.name})
			case 7:
				err = env.emp.Update(ctx, &vEmp{Id: id, Name: op.name, Roles: []string{"r1"}}, MapFieldChecker{vFRoles: struct{}{}})
			}
			opErr[k] = err
			if err != nil {
				return err
			}
		}
		if callerErr {
			return errors.New("verif: caller error")
		}
		return nil
	}
	var err error
	if batch {
		err = env.db.Batch(NewMutateContext(context.Background()), body)
	} else {
		err = env.db.Update(NewMutateContext(context.Background()), body)
	}
	verifrt.Settle()
	verifrt.Logf("tx err=%v txFails=%v ran=%v", err, txFails, ran)

	verifrt.Assert(ran == executed, label+" body runs the same prefix as the model")
	for k := 0; k < ran; k++ {
		verifrt.Assert((opErr[k] != nil) == opRejected[k], label+" a store operation reports an error iff one of its steps was rejected (veto, duplicate, unusable id, missing entity)")
	}
	verifrt.Assert((err != nil) == txFails, label+" the transaction returns an error iff anything in it failed")
	if txFails {
		verifrt.Assert(len(log.events) == 0, label+" a failed transaction fires no entity events")
		verifrt.Assert(log.commits == 0, label+" a failed transaction runs no commit action")
		verifrt.Assert(log.txComplete == 0, label+" a failed transaction runs no tx-complete listener")
		cur = slots
	} else {
		verifrt.Assert(verifEventsEqual(log.events, want), label+" C08 every committed change is delivered exactly once to every listener style, with the final (create/update) or last (delete) state, child changes also once on the parent store")
		verifrt.Assert(log.commits == 1, label+" C08 commit actions run once per committed transaction")
		if !batch {
			verifrt.Assert(log.txComplete == 1, label+" C08 tx-complete listeners run once per committed transaction")
		}
	}
	// database content: the model's state (the pre-state after a failure)
	env.view(func(tx *bbolt.Tx) {
		for i, s := range cur {
			e, found, ferr := env.emp.FindById(tx, vIds[i])
			verifrt.Logf("slot %v found=%v ferr=%v kind=%v", i, found, ferr, s.kind)
			verifrt.Assert(ferr == nil && found == (s.kind != 0), label+" entity present iff the model says so (failed transactions change nothing)")
			if found && s.kind != 0 {
				verifrt.Assert(e.Name == s.name, label+" stored state is the model's state")
			}
			verifrt.Assert((mgr.GetEntityBucket(tx, []byte(vIds[i])) != nil) == (s.kind == 2), label+" child data present iff the model says so")
		}
	})
}

func VerifC07_UpdateTransaction() {
	n := 1
	if verifrt.Tier() == 1 {
		n = 2
	}
	verifC07Body(n, false, true, "C07")
}

func VerifC07_BatchTransaction() { verifC07Body(1, true, true, "C07 batch") }

// C08 shares the machinery: the event-log assertions are the C08 half.
func VerifC08_Events() {
	n := 2
	if verifrt.Tier() == 1 {
		n = 3
	}
	verifC07Body(n, false, false, "C08")
}
