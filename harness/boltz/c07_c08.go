//go:build verif

package boltz

import (
	"context"
	"errors"

	"go.etcd.io/bbolt"

	"github.com/openziti/storage/ast"

	"github.com/openziti/storage/verifrt"
)

// ---- event recording ----

type vEvent struct {
	store  int // 0 emp (parent) store, 1 mgr (child) store
	style  int // registration style, see below
	id     string
	name   string
	ctype  EntityEventType // constraints only
	parent bool            // constraints only: flagged as parent event
}

type vEventLog struct {
	events     []vEvent
	commits    int
	txComplete int
	veto       [4]bool // by EntityEventType (1..3): emp-store constraint vetoes
}

const (
	vStyleTyped = iota
	vStyleFunc
	vStyleUntyped
	vStyleId
	vStyleConstraint
	vStyleUntypedConstraint
)

type vEmpListener struct{ log *vEventLog }

func (l *vEmpListener) HandleEntityEvent(e *vEmp) {
	l.log.events = append(l.log.events, vEvent{store: 0, style: vStyleTyped, id: e.Id, name: e.Name})
}

type vMgrListener struct{ log *vEventLog }

func (l *vMgrListener) HandleEntityEvent(e *vMgr) {
	l.log.events = append(l.log.events, vEvent{store: 1, style: vStyleTyped, id: e.Id, name: e.Name})
}

type vEmpConstraint struct{ log *vEventLog }

func (c *vEmpConstraint) ProcessPreCommit(state *EntityChangeState[*vEmp]) error {
	if c.log.veto[state.ChangeType] {
		return errors.New("verif: vetoed by entity constraint")
	}
	return nil
}

func (c *vEmpConstraint) ProcessPostCommit(state *EntityChangeState[*vEmp]) {
	e := state.FinalState
	if state.ChangeType == EntityDeleted {
		e = state.InitialState
	}
	c.log.events = append(c.log.events, vEvent{store: 0, style: vStyleConstraint, id: state.EntityId, name: e.Name, ctype: state.ChangeType, parent: state.ParentEvent})
}

type vMgrConstraint struct{ log *vEventLog }

func (c *vMgrConstraint) ProcessPreCommit(*EntityChangeState[*vMgr]) error { return nil }
func (c *vMgrConstraint) ProcessPostCommit(state *EntityChangeState[*vMgr]) {
	e := state.FinalState
	if state.ChangeType == EntityDeleted {
		e = state.InitialState
	}
	c.log.events = append(c.log.events, vEvent{store: 1, style: vStyleConstraint, id: state.EntityId, name: e.Name, ctype: state.ChangeType, parent: state.ParentEvent})
}

type vUntypedConstraint struct {
	log   *vEventLog
	store int
}

func (c *vUntypedConstraint) ProcessPreCommit(UntypedEntityChangeState) error { return nil }
func (c *vUntypedConstraint) ProcessPostCommit(state UntypedEntityChangeState) {
	var e Entity = state.GetFinalState()
	if state.GetChangeType() == EntityDeleted {
		e = state.GetInitialState()
	}
	name := ""
	switch x := e.(type) {
	case *vEmp:
		name = x.Name
	case *vMgr:
		name = x.Name
	}
	c.log.events = append(c.log.events, vEvent{store: c.store, style: vStyleUntypedConstraint, id: state.GetEntityId(), name: name, ctype: state.GetChangeType(), parent: state.IsParentEvent()})
}

func verifEntityName(e Entity) string {
	switch x := e.(type) {
	case *vEmp:
		return x.Name
	case *vMgr:
		return x.Name
	}
	return ""
}

func verifRegisterListeners(emp *vEmpStore, mgr *vMgrStore, log *vEventLog) {
	all := []EntityEventType{EntityUpdated, EntityDeleted}
	emp.AddEntityEventListener(&vEmpListener{log}, EntityCreated, all...)
	emp.AddEntityEventListenerF(func(e *vEmp) {
		log.events = append(log.events, vEvent{store: 0, style: vStyleFunc, id: e.Id, name: e.Name})
	}, EntityCreated, all...)
	emp.AddListener(func(e Entity) {
		log.events = append(log.events, vEvent{store: 0, style: vStyleUntyped, id: e.GetId(), name: verifEntityName(e)})
	}, EntityCreated, all...)
	emp.AddEntityIdListener(func(id string) {
		log.events = append(log.events, vEvent{store: 0, style: vStyleId, id: id})
	}, EntityCreated, all...)
	emp.AddEntityConstraint(&vEmpConstraint{log})
	emp.AddUntypedEntityConstraint(&vUntypedConstraint{log, 0})

	mgr.AddEntityEventListener(&vMgrListener{log}, EntityCreated, all...)
	mgr.AddEntityEventListenerF(func(e *vMgr) {
		log.events = append(log.events, vEvent{store: 1, style: vStyleFunc, id: e.Id, name: e.Name})
	}, EntityCreated, all...)
	mgr.AddListener(func(e Entity) {
		log.events = append(log.events, vEvent{store: 1, style: vStyleUntyped, id: e.GetId(), name: verifEntityName(e)})
	}, EntityCreated, all...)
	mgr.AddEntityIdListener(func(id string) {
		log.events = append(log.events, vEvent{store: 1, style: vStyleId, id: id})
	}, EntityCreated, all...)
	mgr.AddEntityConstraint(&vMgrConstraint{log})
	mgr.AddUntypedEntityConstraint(&vUntypedConstraint{log, 1})
}

// expected records of one committed change
func verifExpectEvents(out []vEvent, ctype EntityEventType, id, name string, isMgr bool) []vEvent {
	for _, store := range []int{0, 1} {
		if store == 1 && !isMgr {
			continue
		}
		for style := vStyleTyped; style <= vStyleUntypedConstraint; style++ {
			ev := vEvent{store: store, style: style, id: id, name: name}
			if style == vStyleId {
				ev.name = ""
			}
			if style >= vStyleConstraint {
				ev.ctype = ctype
				ev.parent = store == 0 && isMgr
			}
			out = append(out, ev)
		}
	}
	return out
}

func verifEventsEqual(got, want []vEvent) bool {
	if len(got) != len(want) {
		return false
	}
	ok := true
	for i := range got {
		g, w := got[i], want[i]
		if g.store != w.store || g.style != w.style || g.id != w.id || g.ctype != w.ctype || g.parent != w.parent {
			return false
		}
		ok = verifrt.And(ok, g.name == w.name)
	}
	return ok
}

// ---- transaction bodies ----

type vTxOp struct {
	kind int // 0 create emp, 1 create mgr, 2 update via emp store, 3 update via mgr store, 4 delete via emp store, 5 delete via mgr store, 6 create with blank id, 7 field-restricted update, 8 field-restricted update whose first field may be rejected by its setter
	slot int
	name string
	bad  bool // op 8: the title handed in is empty (rejected by SetRequiredString)
}

func verifC07Body(nOps int, batch bool, faults bool, nestMode int, label string) {
	nSlots := 2
	env := verifNewEnv(vStoreCfg{nickNullable: true})
	defer env.close()
	mgr := verifNewMgrStore(env.emp, false)
	log := &vEventLog{}
	verifRegisterListeners(env.emp, mgr, log)
	env.db.AddTxCompleteListener(func(MutateContext) { log.txComplete++ })

	// arbitrary population (built without vetoes)
	slots := make([]vPCSlot, nSlots)
	for i := range slots {
		slots[i].kind = verifrt.Choose("kind", 3)
		if slots[i].kind == 0 {
			continue
		}
		slots[i].name = verifrt.String("name", 1)
		for j := 0; j < i; j++ {
			if slots[j].kind != 0 {
				verifrt.Assume(slots[j].name != slots[i].name)
			}
		}
		s := slots[i]
		err := env.update(func(ctx MutateContext) error {
			if s.kind == 1 {
				return env.emp.Create(ctx, &vEmp{Id: vIds[i], Name: s.name})
			}
			return mgr.Create(ctx, &vMgr{vEmp: vEmp{Id: vIds[i], Name: s.name}})
		})
		verifrt.Assert(err == nil, label+" population setup succeeds")
	}
	log.events, log.commits, log.txComplete = nil, 0, 0

	// symbolic failure schedule
	callerErr := verifrt.Bool("caller.error")
	var preCommitFails [2]bool
	if faults {
		log.veto[EntityCreated] = verifrt.Bool("veto.create")
		log.veto[EntityUpdated] = verifrt.Bool("veto.update")
		log.veto[EntityDeleted] = verifrt.Bool("veto.delete")
		preCommitFails = [2]bool{verifrt.Bool("precommit0.fails"), verifrt.Bool("precommit1.fails")}
	}

	ops := make([]vTxOp, nOps)
	for k := range ops {
		ops[k].kind = verifrt.Choose("op", 9)
		ops[k].slot = verifrt.Choose("slot", nSlots)
		if ops[k].kind <= 3 || ops[k].kind >= 6 {
			ops[k].name = verifrt.String("opname", 1)
		}
		if ops[k].kind == 8 {
			ops[k].bad = verifrt.Bool("title.empty")
		}
	}

	// reference model: run the body on the abstract state
	cur := append([]vPCSlot{}, slots...)
	var want []vEvent
	bodyFails := false
	opRejected := make([]bool, nOps)
	executed := 0
	for k, op := range ops {
		executed = k + 1
		j := op.slot
		taken := false
		for i, s := range cur {
			if i != j && s.kind != 0 {
				taken = verifrt.Or(taken, s.name == op.name)
			}
		}
		switch op.kind {
		case 0, 1:
			if op.kind == 1 && cur[j].kind == 1 {
				verifrt.Outside("create through the child store of an id that exists as a plain parent entity (not constrained)")
			}
			if cur[j].kind != 0 || taken || log.veto[EntityCreated] {
				opRejected[k] = true
			} else {
				cur[j] = vPCSlot{kind: 1 + op.kind, name: op.name}
				want = verifExpectEvents(want, EntityCreated, vIds[j], op.name, op.kind == 1)
			}
		case 2, 3:
			if cur[j].kind == 0 || (op.kind == 3 && cur[j].kind != 2) || taken || log.veto[EntityUpdated] {
				opRejected[k] = true
			} else {
				cur[j].name = op.name
				want = verifExpectEvents(want, EntityUpdated, vIds[j], op.name, cur[j].kind == 2)
			}
		case 4, 5:
			if op.kind == 5 && cur[j].kind == 1 {
				verifrt.Outside("delete through the child store of an entity without child data (not constrained)")
			}
			if cur[j].kind == 0 || log.veto[EntityDeleted] {
				opRejected[k] = true
			} else {
				want = verifExpectEvents(want, EntityDeleted, vIds[j], cur[j].name, cur[j].kind == 2)
				cur[j] = vPCSlot{}
			}
		case 6:
			opRejected[k] = true // blank id is never usable
		case 8: // update restricted to title, name and roles; an empty title is rejected by its setter
			if cur[j].kind == 0 || taken || log.veto[EntityUpdated] || op.bad {
				opRejected[k] = true
			} else {
				cur[j].name = op.name
				want = verifExpectEvents(want, EntityUpdated, vIds[j], op.name, cur[j].kind == 2)
			}
		case 7: // update restricted to the roles field: the name passed in is not written
			if cur[j].kind == 0 || log.veto[EntityUpdated] {
				opRejected[k] = true
			} else {
				want = verifExpectEvents(want, EntityUpdated, vIds[j], cur[j].name, cur[j].kind == 2)
			}
		}
		if opRejected[k] {
			bodyFails = true
			break
		}
	}
	if !bodyFails && callerErr {
		bodyFails = true
	}
	txFails := bodyFails || preCommitFails[0] || preCommitFails[1]

	// the real transaction
	opErr := make([]error, nOps)
	ran := 0
	txCtx := NewMutateContext(context.Background())
	var runOps func(ctx MutateContext) error
	// the first pre-commit action is registered inside the body or on the
	// context before the transaction starts; the operations run directly in the
	// body or inside a nested Db.Update / Db.Batch on the same context
	regBefore := faults && verifrt.Bool("precommit0.registered.before")
	nested := nestMode == 2 || (nestMode == 1 && verifrt.Bool("nested"))
	preCommit0 := func(MutateContext) error {
		if preCommitFails[0] {
			return errors.New("verif: pre-commit action 0 fails")
		}
		return nil
	}
	if regBefore {
		txCtx.AddPreCommitAction(preCommit0)
	}
	body := func(ctx MutateContext) error {
		ctx.AddCommitAction(func() { log.commits++ })
		if !regBefore {
			ctx.AddPreCommitAction(preCommit0)
		}
		ctx.AddPreCommitAction(func(MutateContext) error {
			if preCommitFails[1] {
				return errors.New("verif: pre-commit action 1 fails")
			}
			return nil
		})
		return runOps(ctx)
	}
	runOps = func(ctx MutateContext) error {
		if nested {
			nested = false
			defer func() { nested = true }()
			if batch {
				return env.db.Batch(ctx, runOps)
			}
			return env.db.Update(ctx, runOps)
		}
		for k, op := range ops {
			ran = k + 1
			id := vIds[op.slot]
			var err error
			switch op.kind {
			case 0:
				err = env.emp.Create(ctx, &vEmp{Id: id, Name: op.name})
			case 1:
				err = mgr.Create(ctx, &vMgr{vEmp: vEmp{Id: id, Name: op.name}})
			case 2:
				err = env.emp.Update(ctx, &vEmp{Id: id, Name: op.name}, nil)
			case 3:
				err = mgr.Update(ctx, &vMgr{vEmp: vEmp{Id: id, Name: op.name}}, nil)
			case 4:
				err = env.emp.DeleteById(ctx, id)
			case 5:
				err = mgr.DeleteById(ctx, id)
			case 6:
				err = env.emp.Create(ctx, &vEmp{Id: "", Name: op.name})
			case 7:
				err = env.emp.Update(ctx, &vEmp{Id: id, Name: op.name, Roles: []string{"r1"}}, MapFieldChecker{vFRoles: struct{}{}})
			case 8:
				title := "T"
				if op.bad {
					title = ""
				}
				err = env.emp.Update(ctx, &vEmp{Id: id, Name: op.name, Title: &title, Roles: []string{"r1"}}, MapFieldChecker{vFTitle: struct{}{}, vFName: struct{}{}, vFRoles: struct{}{}})
			}
			opErr[k] = err
			if err != nil {
				return err
			}
		}
		if callerErr {
			return errors.New("verif: caller error")
		}
		return nil
	}
	var err error
	if batch {
		err = env.db.Batch(txCtx, body)
	} else {
		err = env.db.Update(txCtx, body)
	}
	verifrt.Settle()
	verifrt.Logf("tx err=%v txFails=%v ran=%v", err, txFails, ran)

	verifrt.Assert(ran == executed, label+" body runs the same prefix as the model")
	for k := 0; k < ran; k++ {
		verifrt.Assert((opErr[k] != nil) == opRejected[k], label+" a store operation reports an error iff one of its steps was rejected (veto, duplicate, unusable id, missing entity)")
	}
	verifrt.Assert((err != nil) == txFails, label+" the transaction returns an error iff anything in it failed")
	if txFails {
		verifrt.Assert(len(log.events) == 0, label+" a failed transaction fires no entity events")
		verifrt.Assert(log.commits == 0, label+" a failed transaction runs no commit action")
		verifrt.Assert(log.txComplete == 0, label+" a failed transaction runs no tx-complete listener")
		cur = slots
	} else {
		verifrt.Assert(verifEventsEqual(log.events, want), label+" C08 every committed change is delivered exactly once to every listener style, with the final (create/update) or last (delete) state, child changes also once on the parent store")
		verifrt.Assert(log.commits == 1, label+" C08 commit actions run once per committed transaction")
		if !batch {
			verifrt.Assert(log.txComplete == 1, label+" C08 tx-complete listeners run once per committed transaction")
		}
	}
	// database content: the model's state (the pre-state after a failure)
	env.view(func(tx *bbolt.Tx) {
		for i, s := range cur {
			e, found, ferr := env.emp.FindById(tx, vIds[i])
			verifrt.Logf("slot %v found=%v ferr=%v kind=%v", i, found, ferr, s.kind)
			verifrt.Assert(ferr == nil && found == (s.kind != 0), label+" entity present iff the model says so (failed transactions change nothing)")
			if found && s.kind != 0 {
				verifrt.Assert(e.Name == s.name, label+" stored state is the model's state")
			}
			verifrt.Assert((mgr.GetEntityBucket(tx, []byte(vIds[i])) != nil) == (s.kind == 2), label+" child data present iff the model says so")
		}
	})
}

// ---- a veto raised by a constraint of the CHILD store ----

const vTeamType = "vteams"

type vTeam struct {
	Id   string
	Lead *string
}

func (e *vTeam) GetId() string         { return e.Id }
func (e *vTeam) SetId(id string)       { e.Id = id }
func (e *vTeam) GetEntityType() string { return vTeamType }

type vTeamStrategy struct{}

func (vTeamStrategy) NewEntity() *vTeam                         { return new(vTeam) }
func (vTeamStrategy) FillEntity(e *vTeam, b *TypedBucket)       { e.Lead = b.GetString("lead") }
func (vTeamStrategy) PersistEntity(e *vTeam, c *PersistContext) { c.SetStringP("lead", e.Lead) }

type vTeamStore struct {
	*BaseStore[*vTeam]
}

// teams.lead -> mgr (child store) with a restricting fk index; the delete
// constraint it installs lives on the child store
func verifNewTeamStore(mgr *vMgrStore) *vTeamStore {
	def := StoreDefinition[*vTeam]{
		EntityType:      vTeamType,
		EntityStrategy:  vTeamStrategy{},
		EntityNotFoundF: func(id string) error { return NewNotFoundError(vTeamType, "id", id) },
		BasePath:        []string{vRootPath},
	}
	s := &vTeamStore{BaseStore: NewBaseStore(def)}
	s.InitImpl(s)
	s.AddIdSymbol("id", ast.NodeTypeString)
	lead := s.AddFkSymbol("lead", mgr)
	teams := mgr.AddFkSetSymbol("teams", s)
	s.AddNullableFkIndex(lead, teams)
	return s
}

// VerifC07_ChildStoreConstraintVeto: a manager (parent + child data) who is
// referenced by a team cannot be deleted, through either store: the veto of
// the child store's constraint reaches the caller, nothing changes, no event
// fires. Unreferenced, the delete succeeds.
func VerifC07_ChildStoreConstraintVeto() {
	env := verifNewEnv(vStoreCfg{nickNullable: true})
	defer env.close()
	mgr := verifNewMgrStore(env.emp, false)
	teams := verifNewTeamStore(mgr)
	log := &vEventLog{}
	verifRegisterListeners(env.emp, mgr, log)
	referenced := verifrt.Bool("referenced")
	err := env.update(func(ctx MutateContext) error {
		if err := mgr.Create(ctx, &vMgr{vEmp: vEmp{Id: "a", Name: "Na"}, Lead: true}); err != nil {
			return err
		}
		if err := mgr.Create(ctx, &vMgr{vEmp: vEmp{Id: "ab", Name: "Nab"}}); err != nil {
			return err
		}
		lead := "ab"
		if referenced {
			lead = "a"
		}
		return teams.Create(ctx, &vTeam{Id: "t", Lead: &lead})
	})
	verifrt.Assert(err == nil, "C07 child-constraint setup succeeds")
	log.events = nil
	var before []vDumpEntry
	env.view(func(tx *bbolt.Tx) { before = verifDump(tx) })
	viaChild := verifrt.Bool("viachild")
	err = env.update(func(ctx MutateContext) error {
		if viaChild {
			return mgr.DeleteById(ctx, "a")
		}
		return env.emp.DeleteById(ctx, "a")
	})
	verifrt.Settle()
	verifrt.Assert((err != nil) == referenced, "C07 a delete vetoed by a constraint of the child store is reported to the caller (and only then)")
	env.view(func(tx *bbolt.Tx) {
		if referenced {
			verifrt.Assert(verifDumpEqual(before, verifDump(tx)), "C07 a delete vetoed by the child store's constraint changes nothing")
			verifrt.Assert(len(log.events) == 0, "C07 a vetoed delete fires no events")
		} else {
			verifrt.Assert(env.emp.GetEntityBucket(tx, []byte("a")) == nil && mgr.GetEntityBucket(tx, []byte("a")) == nil, "C07 the unreferenced manager is deleted in both stores")
		}
	})
}

// VerifC07_StorageErrorReachesCaller: bbolt refuses keys longer than 32768
// bytes (a storage error the engine raises on Put). A transaction first
// creates a valid emp and then creates / updates another one whose unique name
// or nick (the keys of the unique indexes) has a length around that limit:
// at the limit the operation is accepted; beyond it the storage error must
// reach the caller, the whole transaction fails, nothing is stored and no
// event fires.
func VerifC07_StorageErrorReachesCaller() {
	env := verifNewEnv(vStoreCfg{nickNullable: true})
	defer env.close()
	mgr := verifNewMgrStore(env.emp, false)
	log := &vEventLog{}
	verifRegisterListeners(env.emp, mgr, log)
	long := func(n int) string {
		b := make([]byte, n)
		for i := range b {
			b[i] = 'k'
		}
		return string(b)
	}
	field := verifrt.Choose("field", 2)           // 0 name, 1 nick
	over := verifrt.Choose("over", 2) == 1        // 32768 bytes (largest key) or 32769
	viaUpdate := verifrt.Choose("update", 2) == 1 // the long value arrives by create or by update
	n := 32768
	if over {
		n++
	}
	mk := func(id string) *vEmp {
		e := &vEmp{Id: id, Name: "N" + id}
		if field == 0 {
			e.Name = long(n)
		} else {
			v := long(n)
			e.Nick = &v
		}
		return e
	}
	if viaUpdate {
		err := env.update(func(ctx MutateContext) error { return env.emp.Create(ctx, &vEmp{Id: "ab", Name: "Nab"}) })
		verifrt.Assert(err == nil, "C07 storage-error setup succeeds")
		log.events = nil
	}
	var before []vDumpEntry
	env.view(func(tx *bbolt.Tx) { before = verifDump(tx) })
	var opErr error
	err := env.update(func(ctx MutateContext) error {
		if err := env.emp.Create(ctx, &vEmp{Id: "a", Name: "Na"}); err != nil {
			return err
		}
		if viaUpdate {
			opErr = env.emp.Update(ctx, mk("ab"), nil)
		} else {
			opErr = env.emp.Create(ctx, mk("ab"))
		}
		return opErr
	})
	verifrt.Settle()
	verifrt.Assert((opErr != nil) == over, "C07 a store operation reports the storage error (key too large) iff the key exceeds the engine's limit")
	verifrt.Assert((err != nil) == over, "C07 the transaction fails iff a storage error occurred in it")
	env.view(func(tx *bbolt.Tx) {
		if over {
			verifrt.Assert(verifDumpEqual(before, verifDump(tx)), "C07 after a storage error the database is as before the transaction")
			verifrt.Assert(len(log.events) == 0, "C07 a transaction that hit a storage error fires no events")
		} else {
			e, found, ferr := env.emp.FindById(tx, "ab")
			ok := ferr == nil && found
			if ok && field == 0 {
				ok = len(e.Name) == n
			}
			if ok && field == 1 {
				ok = e.Nick != nil && len(*e.Nick) == n
			}
			verifrt.Assert(ok, "C07 a value of the largest admissible key length is stored")
		}
	})
}

// VerifC07_StorageFaultAtAnyPut: a storage error raised by the engine at any
// single point of a store operation. The population is fixed (an emp with
// roles, nick, fk reference, link and ref-counted link; a manager with child
// data); the transaction performs one valid operation of every kind the stores
// offer; the k-th Bucket.Put issued inside the transaction fails (k symbolic).
// If the fault was delivered, the operation and the transaction must report an
// error, the database must be as before and no event may fire; if the
// operation needed fewer than k Puts it succeeds.
func VerifC07_StorageFaultAtAnyPut() {
	cfg := vStoreCfg{nickNullable: true, fk: vFkIndexNullable, fkToDept: true, links: true}
	env := verifNewEnv(cfg)
	defer env.close()
	mgr := verifNewMgrStore(env.emp, false)
	log := &vEventLog{}
	verifRegisterListeners(env.emp, mgr, log)
	env.createDepts(vDeptIds...)
	x, xy := vDeptIds[0], vDeptIds[1]
	nick := "ka"
	err := env.update(func(ctx MutateContext) error {
		if err := env.emp.Create(ctx, &vEmp{Id: "a", Name: "Na", Nick: &nick, Roles: []string{"r1"}, Boss: &x}); err != nil {
			return err
		}
		if err := mgr.Create(ctx, &vMgr{vEmp: vEmp{Id: "ab", Name: "Nab", Roles: []string{"r1", "r2"}}, Lead: true}); err != nil {
			return err
		}
		if err := env.emp.depts.AddLinks(ctx.Tx(), "a", x); err != nil {
			return err
		}
		_, err := env.emp.rcDepts.IncrementLinkCount(ctx.Tx(), []byte("a"), []byte(x))
		return err
	})
	verifrt.Assert(err == nil, "C07 storage-fault population setup succeeds")
	log.events = nil
	var before []vDumpEntry
	env.view(func(tx *bbolt.Tx) { before = verifDump(tx) })

	const nOps = 14
	op := verifrt.Choose("op", nOps)
	if op == 13 {
		// repair work for the integrity checker: the unique-index entry of emp a
		// and its membership in the role index are gone
		err := env.db.Update(nil, func(ctx MutateContext) error {
			tx := ctx.Tx()
			if err := Path(tx, vRootPath, IndexesBucket, vEmpType, vFName).Delete([]byte("Na")); err != nil {
				return err
			}
			return Path(tx, vRootPath, IndexesBucket, vEmpType, vFRoles, "r1").Delete(PrependFieldType(TypeString, []byte("a")))
		})
		verifrt.Assert(err == nil, "C07 corruption for the repair operation injected")
		env.view(func(tx *bbolt.Tx) { before = verifDump(tx) })
	}
	maxK := 14
	if verifrt.Tier() == 1 {
		maxK = 30
	}
	k := 1 + verifrt.Choose("fault.put", maxK)
	nick2 := "kb"
	var opErr error
	txErr := env.update(func(ctx MutateContext) error {
		tx := ctx.Tx()
		verifrt.SetPutFault(k)
		defer verifrt.DisarmPutFault()
		switch op {
		case 0:
			opErr = env.emp.Create(ctx, &vEmp{Id: "b", Name: "Nb", Nick: &nick2, Roles: []string{"r1", "r2"}, Boss: &xy})
		case 1:
			opErr = env.emp.Update(ctx, &vEmp{Id: "a", Name: "Nz", Nick: &nick2, Roles: []string{"r2"}, Boss: &xy}, nil)
		case 2:
			opErr = env.emp.DeleteById(ctx, "a")
		case 3:
			opErr = mgr.Create(ctx, &vMgr{vEmp: vEmp{Id: "b", Name: "Nb", Roles: []string{"r2"}}, Lead: true})
		case 4:
			opErr = mgr.Update(ctx, &vMgr{vEmp: vEmp{Id: "ab", Name: "Nz", Roles: []string{"r1"}}, Lead: false}, nil)
		case 5:
			opErr = mgr.DeleteById(ctx, "ab")
		case 6:
			opErr = env.emp.depts.AddLinks(tx, "a", xy)
		case 7:
			opErr = env.emp.depts.SetLinks(tx, "a", []string{xy})
		case 8:
			opErr = env.emp.depts.RemoveLinks(tx, "a", x)
		case 9:
			_, opErr = env.emp.rcDepts.IncrementLinkCount(tx, []byte("a"), []byte(x))
		case 10:
			_, opErr = env.emp.rcDepts.DecrementLinkCount(tx, []byte("a"), []byte(x))
		case 11:
			_, _, opErr = env.emp.rcDepts.SetLinkCount(tx, []byte("a"), []byte(xy), 3)
		case 12:
			opErr = env.emp.Update(ctx, &vEmp{Id: "a", Name: "Nz", Roles: []string{"r1", "r2"}}, MapFieldChecker{vFName: struct{}{}, vFRoles: struct{}{}})
		case 13:
			opErr = env.emp.CheckIntegrity(ctx, true, func(error, bool) {})
		}
		return opErr
	})
	fired := verifrt.PutFaultFired()
	verifrt.Settle()
	opName := []string{"create", "update", "delete", "create through child store", "update through child store", "delete through child store",
		"AddLinks", "SetLinks", "RemoveLinks", "IncrementLinkCount", "DecrementLinkCount", "SetLinkCount", "field-restricted update", "CheckIntegrity in fix mode"}[op]
	verifrt.Assert((opErr != nil) == fired, "C07 a store operation reports an error iff the storage engine failed one of its writes: "+opName)
	verifrt.Assert((txErr != nil) == fired, "C07 the transaction fails iff a storage error occurred in it: "+opName)
	if fired {
		env.view(func(tx *bbolt.Tx) {
			verifrt.Assert(verifDumpEqual(before, verifDump(tx)), "C07 after a storage error the database is as before the transaction")
		})
		verifrt.Assert(len(log.events) == 0, "C07 a transaction that hit a storage error fires no events")
	} else {
		verifrt.Reach("C07 operation completed before the armed write was reached")
	}
}

func VerifC07_UpdateTransaction() {
	n := 1
	if verifrt.Tier() == 1 {
		n = 2
	}
	verifC07Body(n, false, true, 1, "C07")
}

func VerifC07_BatchTransaction() { verifC07Body(1, true, true, 1, "C07 batch") }

// VerifC08_ContextReuse: the same MutateContext carries two transactions in a
// row (Db.Update detaches the tx from the context when it ends, so a context
// can be used again). Events belong to the transaction that made the change:
// what a rolled-back transaction did produces no event when a later
// transaction on the same context commits, and a committed transaction's
// events are not delivered again.
func VerifC08_ContextReuse() {
	env := verifNewEnv(vStoreCfg{nickNullable: true})
	defer env.close()
	mgr := verifNewMgrStore(env.emp, false)
	log := &vEventLog{}
	verifRegisterListeners(env.emp, mgr, log)
	ctx := NewMutateContext(context.Background())
	fail := [2]bool{verifrt.Bool("tx0.fails"), verifrt.Bool("tx1.fails")}
	child := [2]bool{verifrt.Bool("tx0.child"), verifrt.Bool("tx1.child")}
	names := [2]string{verifrt.String("name", 1), verifrt.String("name", 1)}
	verifrt.Assume(names[0] != names[1])
	var want []vEvent
	for k := 0; k < 2; k++ {
		k := k
		err := env.db.Update(ctx, func(c MutateContext) error {
			var err error
			if child[k] {
				err = mgr.Create(c, &vMgr{vEmp: vEmp{Id: vIds[k], Name: names[k]}})
			} else {
				err = env.emp.Create(c, &vEmp{Id: vIds[k], Name: names[k]})
			}
			if err != nil {
				return err
			}
			if fail[k] {
				return errors.New("verif: caller error")
			}
			return nil
		})
		verifrt.Settle()
		verifrt.Assert((err != nil) == fail[k], "C08 reuse: the transaction fails iff its body fails")
		if !fail[k] {
			want = verifExpectEvents(want, EntityCreated, vIds[k], names[k], child[k])
		}
		verifrt.Assert(verifEventsEqual(log.events, want), "C08 reuse: after each transaction the delivered events are exactly those of the committed transactions so far")
	}
	env.view(func(tx *bbolt.Tx) {
		for k := 0; k < 2; k++ {
			verifrt.Assert(env.emp.IsEntityPresent(tx, vIds[k]) == !fail[k], "C08 reuse: entity present iff its transaction committed")
		}
	})
}

// VerifC08_SeveralChildStores: a parent with two child stores; an entity of
// the one registered second is created, updated and deleted through any store
// of the family: each listener of its child store and of the parent store
// hears each committed change exactly once.
func VerifC08_SeveralChildStores() {
	env := verifNewEnv(vStoreCfg{nickNullable: true})
	defer env.close()
	ext := verifNewMgrStore(env.emp, false)
	transit := verifNewTransitStore(env.emp)
	err := env.update(func(ctx MutateContext) error {
		h := &vErrHolder{}
		transit.InitializeIndexes(ctx.Tx(), h)
		return h.err
	})
	verifrt.Assert(err == nil, "C08 child index initialisation succeeds")
	type rec struct {
		store int // 0 parent, 1 first child (ext), 2 second child (transit)
		kind  EntityEventType
		id    string
	}
	var got []rec
	for _, t := range []EntityEventType{EntityCreated, EntityUpdated, EntityDeleted} {
		t := t
		env.emp.AddEntityIdListener(func(id string) { got = append(got, rec{0, t, id}) }, t)
		ext.AddEntityIdListener(func(id string) { got = append(got, rec{1, t, id}) }, t)
		transit.AddEntityIdListener(func(id string) { got = append(got, rec{2, t, id}) }, t)
	}
	// the entity lives in the second child store (or, symbolic, in the first)
	inTransit := verifrt.Bool("in.transit")
	err = env.update(func(ctx MutateContext) error {
		if inTransit {
			return transit.Create(ctx, &vTransit{vEmp: vEmp{Id: "a", Name: "Na"}, Token: "k"})
		}
		return ext.Create(ctx, &vMgr{vEmp: vEmp{Id: "a", Name: "Na"}})
	})
	verifrt.Settle()
	verifrt.Assert(err == nil, "C08 create through a child store succeeds")
	home := 1
	if inTransit {
		home = 2
	}
	count := func(store int, kind EntityEventType) int {
		n := 0
		for _, r := range got {
			if r.store == store && r.kind == kind && r.id == "a" {
				n++
			}
		}
		return n
	}
	other := 3 - home
	verifrt.Assert(count(home, EntityCreated) == 1 && count(0, EntityCreated) == 1 && count(other, EntityCreated) == 0, "C08 a create through a child store is heard once on that store and once on the parent, not on the sibling store")
	// update through the parent store
	err = env.update(func(ctx MutateContext) error { return env.emp.Update(ctx, &vEmp{Id: "a", Name: "Nb"}, nil) })
	verifrt.Settle()
	verifrt.Assert(err == nil, "C08 update through the parent store succeeds")
	verifrt.Assert(count(home, EntityUpdated) == 1 && count(0, EntityUpdated) == 1 && count(other, EntityUpdated) == 0, "C08 an update of a child entity through the parent is heard once on its child store and once on the parent")
	// delete through any store of the family
	via := verifrt.Choose("via", 3)
	err = env.update(func(ctx MutateContext) error {
		switch via {
		case 0:
			return env.emp.DeleteById(ctx, "a")
		case 1:
			return ext.DeleteById(ctx, "a")
		}
		return transit.DeleteById(ctx, "a")
	})
	verifrt.Settle()
	verifrt.Assert(err == nil, "C08 delete through any store of the family succeeds")
	verifrt.Assert(count(home, EntityDeleted) == 1 && count(0, EntityDeleted) == 1 && count(other, EntityDeleted) == 0, "C08 a delete is heard once on the entity's child store and once on the parent, whichever child store was registered first")
}

// C08 shares the machinery: the event-log assertions are the C08 half.
func VerifC08_Events() {
	n := 2
	if verifrt.Tier() == 1 {
		n = 3
	}
	verifC07Body(n, false, false, 0, "C08")
}

// the operations run inside a nested Db.Update on the transaction's context:
// still one transaction - events, commit actions and tx-complete listeners once
func VerifC08_NestedUpdate() { verifC07Body(1, false, false, 2, "C08 nested") }

// a rejection recorded before the entity is persisted (the system-entity veto
// on a child-store entity, see VerifC16_ChildStoreSystemEntities) must still be
// the operation's result after the child and parent parts have been written
func VerifC07_RejectionRecordedBeforePersist() { VerifC16_ChildStoreSystemEntities() }

// VerifC07_RejectionThroughEitherStoreOfAFamily: an entity (plain or with child
// data) is updated through the parent or the child store so that its foreign
// key names a target that exists or not (fk index or fk constraint wiring):
// the missing target is reported to the caller whichever store the update
// went through, nothing is written and no event fires; a valid target is
// accepted.
func VerifC07_RejectionThroughEitherStoreOfAFamily() {
	wiring := []int{vFkIndexNullable, vFkConstraintRestrict}[verifrt.Choose("wiring", 2)]
	env := verifNewEnv(vStoreCfg{nickNullable: true, fk: wiring, fkToDept: true})
	defer env.close()
	mgr := verifNewMgrStore(env.emp, false)
	log := &vEventLog{}
	verifRegisterListeners(env.emp, mgr, log)
	env.createDepts(vDeptIds...)
	child := verifrt.Bool("child")
	x := vDeptIds[0]
	err := env.update(func(ctx MutateContext) error {
		if child {
			return mgr.Create(ctx, &vMgr{vEmp: vEmp{Id: "a", Name: "Na", Boss: &x}, Lead: true})
		}
		return env.emp.Create(ctx, &vEmp{Id: "a", Name: "Na", Boss: &x})
	})
	verifrt.Assert(err == nil, "C07 family setup succeeds")
	log.events = nil
	var before []vDumpEntry
	env.view(func(tx *bbolt.Tx) { before = verifDump(tx) })
	viaChild := verifrt.Bool("viachild")
	if viaChild && !child {
		verifrt.Outside("update through the child store of an entity without child data (not constrained)")
	}
	missing := verifrt.Bool("target.missing")
	target := vDeptIds[1]
	if missing {
		target = "nosuchdept"
	}
	patch := verifrt.Bool("patch")
	var checker FieldChecker
	if patch {
		checker = MapFieldChecker{vFBoss: struct{}{}}
	}
	err = env.update(func(ctx MutateContext) error {
		if viaChild {
			return mgr.Update(ctx, &vMgr{vEmp: vEmp{Id: "a", Name: "Na", Boss: &target}, Lead: true}, checker)
		}
		return env.emp.Update(ctx, &vEmp{Id: "a", Name: "Na", Boss: &target}, checker)
	})
	verifrt.Settle()
	verifrt.Assert((err != nil) == missing, "C07 an update naming a missing fk target is rejected through either store of the family (and only then)")
	env.view(func(tx *bbolt.Tx) {
		if missing {
			verifrt.Assert(verifDumpEqual(before, verifDump(tx)), "C07 a rejected update through either store changes nothing")
			verifrt.Assert(len(log.events) == 0, "C07 a rejected update fires no events")
			return
		}
		e, found, ferr := env.emp.FindById(tx, "a")
		verifrt.Assert(ferr == nil && found && e.Boss != nil && *e.Boss == target, "C07 an accepted update is stored")
	})
}

// VerifC08_CreateEventCarriesCommittedState: the struct handed to Create is the
// caller's; it is changed (re-used for the next create) before the transaction
// commits. Each create event carries what was stored for that entity.
func VerifC08_CreateEventCarriesCommittedState() {
	env := verifNewEnv(vStoreCfg{nickNullable: true})
	defer env.close()
	mgr := verifNewMgrStore(env.emp, false)
	log := &vEventLog{}
	verifRegisterListeners(env.emp, mgr, log)
	n1, n2 := verifrt.String("name", 1), verifrt.String("name", 1)
	verifrt.Assume(n1 != n2)
	child := verifrt.Bool("child")
	err := env.update(func(ctx MutateContext) error {
		if child {
			e := &vMgr{vEmp: vEmp{Id: "a", Name: n1}, Lead: true}
			if err := mgr.Create(ctx, e); err != nil {
				return err
			}
			e.Id, e.Name = "ab", n2 // the same struct, re-used
			return mgr.Create(ctx, e)
		}
		e := &vEmp{Id: "a", Name: n1}
		if err := env.emp.Create(ctx, e); err != nil {
			return err
		}
		e.Id, e.Name = "ab", n2
		return env.emp.Create(ctx, e)
	})
	verifrt.Settle()
	verifrt.Assert(err == nil, "C08 two creates from one re-used struct succeed")
	var want []vEvent
	want = verifExpectEvents(want, EntityCreated, "a", n1, child)
	want = verifExpectEvents(want, EntityCreated, "ab", n2, child)
	verifrt.Assert(verifEventsEqual(log.events, want), "C08 each create event carries the state committed for its entity, not what the caller's struct holds later")
}
