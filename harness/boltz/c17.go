//go:build verif

package boltz

import (
	"context"
	"errors"
	"os"

	"go.etcd.io/bbolt"

	"github.com/openziti/storage/verifrt"
)

// C17, marker / timeline slice only (see DESIGN.md): the snapshot-id and
// timeline-reset bookkeeping. File copy, rename, reopen and the interplay with
// concurrent transactions are I/O and scheduling and are not claimed.

func verifMetaState(db *DbImpl) (reset *bool, timeline *string, snapshot *string) {
	_ = db.View(func(tx *bbolt.Tx) error {
		if b := Path(tx, Metadata); b != nil {
			reset = b.GetBool(ResetTimeline)
			timeline = b.GetString(TimelineId)
			snapshot = b.GetString(SnapshotId)
		}
		return nil
	})
	return
}

// VerifC17_TimelineIdStateMachine: from an arbitrary metadata state (reset
// marker absent/true/false, stored id absent/present), a timeline-id request
// in any mode with a succeeding or failing id source: a fresh id is produced
// exactly when the marker is set or the mode demands it, it is stored and the
// marker cleared; otherwise the stored id is returned and the source is not
// consulted; a failing source changes nothing; the following default request
// returns the same id without consulting the source.
func VerifC17_TimelineIdStateMachine() {
	raw := verifrt.OpenDB()
	db := &DbImpl{rootBucket: vRootPath, db: raw}
	defer raw.Close()
	resetState := verifrt.Choose("reset", 3) // 0 absent, 1 true, 2 false
	hasId := verifrt.Bool("stored.set")
	stored := verifrt.StringUpTo("stored", 1)
	err := db.Update(NewMutateContext(context.Background()), func(ctx MutateContext) error {
		b := GetOrCreatePath(ctx.Tx(), Metadata)
		if resetState == 1 {
			b.SetBool(ResetTimeline, true, nil)
		} else if resetState == 2 {
			b.SetBool(ResetTimeline, false, nil)
		}
		if hasId {
			b.SetString(TimelineId, stored, nil)
		}
		return b.GetError()
	})
	verifrt.Assert(err == nil, "C17 metadata setup succeeds")
	modes := []TimelineMode{TimelineModeDefault, TimelineModeInitIfEmpty, TimelineModeForceReset}
	mode := modes[verifrt.Choose("mode", 3)]
	fails := verifrt.Bool("idf.fails")
	calls := 0
	idF := func() (string, error) {
		calls++
		if fails {
			return "", errors.New("verif: id source fails")
		}
		return "fresh-" + string(rune('0'+calls)), nil
	}
	wantReset := resetState == 1 || mode == TimelineModeForceReset || (mode == TimelineModeInitIfEmpty && !hasId)
	id, err := db.GetTimelineId(mode, idF)
	if wantReset {
		verifrt.Assert(calls == 1, "C17 the id source is consulted exactly once when a fresh id is due")
		if fails {
			verifrt.Assert(err != nil, "C17 a failing id source is reported")
			r, tl, _ := verifMetaState(db)
			verifrt.Assert((r != nil && *r) == (resetState == 1), "C17 a failed request leaves the marker as it was")
			if hasId {
				verifrt.Assert(tl != nil && *tl == stored, "C17 a failed request leaves the stored id as it was")
			} else {
				verifrt.Assert(tl == nil, "C17 a failed request stores no id")
			}
			return
		}
		verifrt.Assert(err == nil && id == "fresh-1", "C17 the fresh id is returned")
		r, tl, _ := verifMetaState(db)
		verifrt.Assert(r != nil && !*r, "C17 the reset marker is cleared")
		verifrt.Assert(tl != nil && *tl == "fresh-1", "C17 the fresh id is stored")
	} else {
		verifrt.Assert(calls == 0, "C17 the id source is not consulted when no fresh id is due")
		verifrt.Assert(err == nil, "C17 request succeeds")
		if hasId {
			verifrt.Assert(id == stored, "C17 the stored id is returned")
		} else {
			verifrt.Assert(id == "", "C17 without a stored id the empty id is returned")
		}
	}
	// the next (default) request: same id, source not consulted - fresh exactly once
	before := calls
	id2, err := db.GetTimelineId(TimelineModeDefault, idF)
	verifrt.Assert(err == nil && id2 == id && calls == before, "C17 the following request returns the same id without a fresh one")
}

// VerifC17_SnapshotMarkers: Snapshot writes the snapshot id and the
// reset marker into the copy, not the live database; after the copy takes the
// live database's place the reported snapshot id is the one returned, and the
// next timeline-id request yields a fresh id exactly once.
func VerifC17_SnapshotMarkers() {
	raw := verifrt.OpenDB()
	db := &DbImpl{rootBucket: vRootPath, db: raw}
	hasId := verifrt.Bool("stored.set")
	err := db.Update(NewMutateContext(context.Background()), func(ctx MutateContext) error {
		b := GetOrCreatePath(ctx.Tx(), Metadata)
		if hasId {
			b.SetString(TimelineId, "old-timeline", nil)
		}
		b.SetString("payload", "state-A", nil)
		return b.GetError()
	})
	verifrt.Assert(err == nil, "C17 setup succeeds")
	// the real Snapshot: copy of the committed state + markers in the copy
	copyPath, snapId, err := db.Snapshot(verifrt.TempPath("copy.db"))
	verifrt.Assert(err == nil && snapId != "", "C17 taking a snapshot succeeds")
	_, _, liveSnap := verifMetaState(db)
	verifrt.Assert(liveSnap == nil, "C17 the live database is not marked")
	// the copy takes the live database's place
	restored := &DbImpl{rootBucket: vRootPath}
	verifrt.Assert(restored.Open(copyPath) == nil, "C17 opening the copy succeeds")
	got, err := restored.GetSnapshotId()
	verifrt.Assert(err == nil && got != nil && *got == snapId, "C17 the restored database reports the snapshot id that was returned")
	calls := 0
	idF := func() (string, error) { calls++; return "fresh", nil }
	id, err := restored.GetTimelineId(TimelineModeDefault, idF)
	verifrt.Assert(err == nil && id == "fresh" && calls == 1, "C17 after a restore the next timeline-id request returns a fresh id")
	id, err = restored.GetTimelineId(TimelineModeDefault, idF)
	verifrt.Assert(err == nil && id == "fresh" && calls == 1, "C17 ... exactly once")
	var payload *string
	_ = restored.View(func(tx *bbolt.Tx) error {
		payload = Path(tx, Metadata).GetString("payload")
		return nil
	})
	verifrt.Assert(payload != nil && *payload == "state-A", "C17 the copy carries the content of the snapshot state")
}

// verifDumpData: the logical content without the metadata bucket (where the
// snapshot operation records its markers).
func verifDumpData(tx *bbolt.Tx) []vDumpEntry {
	var out []vDumpEntry
	depth := 0
	skipping := false
	for _, e := range verifDump(tx) {
		d := len(e.path)
		if skipping && d > depth {
			continue
		}
		skipping = false
		if d == 0 && e.bucket && string(e.key) == Metadata {
			skipping, depth = true, 0
			continue
		}
		out = append(out, e)
	}
	return out
}

// VerifC17_SnapshotRestoreRoundTrip: state A (symbolic entities with indexes),
// the real Snapshot, a further committed transaction of any kind, the real
// RestoreFromReader of the snapshot file: afterwards the logical content
// (everything but the metadata markers) equals state A, the stores serve state
// A again, the database reports the snapshot id that Snapshot returned, the
// restore listener has fired, and the next timeline-id request yields a fresh
// id exactly once.
func VerifC17_SnapshotRestoreRoundTrip() {
	db := &DbImpl{rootBucket: vRootPath}
	verifrt.Assert(db.Open(verifrt.TempPath("live.db")) == nil, "C17 opening the live database succeeds")
	env := &vEnv{raw: db.db, db: db}
	env.dept = verifNewDeptStore()
	env.emp = verifNewEmpStore(vStoreCfg{nickNullable: true}, env.dept)
	err := env.db.Update(nil, func(ctx MutateContext) error {
		h := &vErrHolder{}
		env.dept.InitializeIndexes(ctx.Tx(), h)
		env.emp.InitializeIndexes(ctx.Tx(), h)
		return h.err
	})
	verifrt.Assert(err == nil, "C17 store initialisation succeeds")
	// state A
	nameA := verifrt.String("name", 1)
	second := verifrt.Bool("second.present")
	err = env.update(func(ctx MutateContext) error {
		if err := env.emp.Create(ctx, &vEmp{Id: "a", Name: nameA, Roles: []string{"r1"}}); err != nil {
			return err
		}
		if second {
			return env.emp.Create(ctx, &vEmp{Id: "ab", Name: "N2", Roles: []string{"r1", "r2"}})
		}
		return nil
	})
	verifrt.Assert(err == nil, "C17 state A setup succeeds")
	var stateA []vDumpEntry
	env.view(func(tx *bbolt.Tx) { stateA = verifDumpData(tx) })
	restored := 0
	db.AddRestoreListener(func() { restored++ })

	copyPath, snapId, err := db.Snapshot(verifrt.TempPath("copy.db"))
	verifrt.Assert(err == nil && snapId != "", "C17 taking a snapshot succeeds")

	// any further committed work
	later := verifrt.Choose("later", 5)
	nameB := verifrt.String("later.name", 1)
	err = env.update(func(ctx MutateContext) error {
		switch later {
		case 1:
			verifrt.Assume(nameB != nameA)
			verifrt.Assume(nameB != "N")
			return env.emp.Create(ctx, &vEmp{Id: "b", Name: nameB})
		case 2:
			return env.emp.DeleteById(ctx, "a")
		case 3:
			verifrt.Assume(nameB != "N")
			return env.emp.Update(ctx, &vEmp{Id: "a", Name: nameB, Roles: []string{"r2"}}, nil)
		case 4:
			if err := env.emp.DeleteById(ctx, "a"); err != nil {
				return err
			}
			if second {
				return env.emp.DeleteById(ctx, "ab")
			}
		}
		return nil
	})
	verifrt.Assert(err == nil, "C17 later transaction succeeds")

	restoreAndCheck := func(round int) {
		f, err := os.Open(copyPath)
		verifrt.Assert(err == nil, "C17 the snapshot file can be opened")
		panicked, msg := verifrt.Catch(func() { db.RestoreFromReader(f) })
		_ = f.Close()
		verifrt.Settle()
		verifrt.Logf("panic message (if any): %v", msg) // not part of the label: executor and native wording differ
		verifrt.Assert(!panicked, "C17 restoring the snapshot does not fail")

		env.view(func(tx *bbolt.Tx) {
			verifrt.Assert(verifDumpEqual(stateA, verifDumpData(tx)), "C17 after the restore the logical content equals the state at snapshot time")
			e, found, ferr := env.emp.FindById(tx, "a")
			verifrt.Assert(ferr == nil && found && e.Name == nameA, "C17 the stores serve the snapshot state again")
			_, found, _ = env.emp.FindById(tx, "b")
			verifrt.Assert(!found, "C17 work committed after the snapshot is gone")
		})
		got, err := db.GetSnapshotId()
		verifrt.Assert(err == nil && got != nil && *got == snapId, "C17 the restored database reports the snapshot id that Snapshot returned")
		verifrt.Assert(restored == round, "C17 restore listeners have fired once per restore")
		calls := 0
		fresh := "fresh"
		if round == 2 {
			fresh = "fresh2"
		}
		idF := func() (string, error) { calls++; return fresh, nil }
		id, err := db.GetTimelineId(TimelineModeDefault, idF)
		verifrt.Assert(err == nil && id == fresh && calls == 1, "C17 after the restore the next timeline-id request returns a fresh id")
		id, err = db.GetTimelineId(TimelineModeDefault, idF)
		verifrt.Assert(err == nil && id == fresh && calls == 1, "C17 ... exactly once")
	}
	restoreAndCheck(1)

	// "restored over any subsequent state": also the state reached after an
	// earlier restore of the same snapshot plus further committed work
	if verifrt.Bool("restore.again") {
		again := verifrt.Choose("later2", 3)
		err = env.update(func(ctx MutateContext) error {
			switch again {
			case 1:
				return env.emp.Create(ctx, &vEmp{Id: "b", Name: "N3"})
			case 2:
				return env.emp.DeleteById(ctx, "a")
			}
			return nil
		})
		verifrt.Assert(err == nil, "C17 transaction after the first restore succeeds")
		restoreAndCheck(2)
	}
	_ = db.Close()
}
