//go:build verif

package boltz

import (
	"go.etcd.io/bbolt"

	"github.com/openziti/storage/verifrt"
)

func verifC14Bounds() (maxN, steps int) {
	if verifrt.Tier() == 1 {
		return 3, 3 // (4 elements x 3 steps ran past the 150 min budget)
	}
	return 3, 2
}

// raw bolt cursors: elements are the (non-empty) keys themselves
func verifC14Raw(forward bool, label string) {
	maxN, steps := verifC14Bounds()
	set := verifrt.SortedSet("e", maxN, 1, 2)
	verifWithSetBucket(set, func(tx *bbolt.Tx, b *bbolt.Bucket) {
		c := NewBoltCursor(b.Cursor(), forward)
		verifrt.CursorScript(set, c, forward, steps, 2, label)
	})
}

func VerifC14_ForwardBoltCursor() { verifC14Raw(true, "C14 forward bolt cursor") }
func VerifC14_ReverseBoltCursor() { verifC14Raw(false, "C14 reverse bolt cursor") }

// typed bolt cursors: keys are tag+value, the cursor must hand out the bare
// values (the empty string included)
func verifC14Typed(forward bool, label string) {
	maxN, steps := verifC14Bounds()
	set := verifrt.SortedSet("e", maxN, 0, 2)
	keys := make([][]byte, len(set))
	for i, v := range set {
		keys[i] = PrependFieldType(TypeString, v)
	}
	verifWithSetBucket(keys, func(tx *bbolt.Tx, b *bbolt.Bucket) {
		if forward {
			verifrt.CursorScript(set, NewTypedForwardBoltCursor(b.Cursor(), TypeString), true, steps, 2, label)
		} else {
			verifrt.CursorScript(set, NewTypedReverseBoltCursor(b.Cursor(), TypeString), false, steps, 2, label)
		}
	})
}

func VerifC14_TypedForwardBoltCursor() { verifC14Typed(true, "C14 typed forward cursor") }
func VerifC14_TypedReverseBoltCursor() { verifC14Typed(false, "C14 typed reverse cursor") }
