//go:build verif

package boltz

import (
	"go.etcd.io/bbolt"

	"github.com/openziti/storage/verifrt"
)

func verifC05Env() *vEnv {
	return verifNewEnv(vStoreCfg{nickNullable: true, links: true})
}

func (env *vEnv) createEmps(ids ...string) {
	err := env.update(func(ctx MutateContext) error {
		for _, id := range ids {
			if err := env.emp.Create(ctx, verifEmpFor(id, nil, vStoreCfg{nickNullable: true})); err != nil {
				return err
			}
		}
		return nil
	})
	verifrt.Assert(err == nil, "C05 creating emps succeeds")
}

func (env *vEnv) createDepts(ids ...string) {
	err := env.update(func(ctx MutateContext) error {
		for _, id := range ids {
			if err := env.dept.Create(ctx, &vDept{Id: id, Label: "L"}); err != nil {
				return err
			}
		}
		return nil
	})
	verifrt.Assert(err == nil, "C05 creating depts succeeds")
}

// rawLinked reads one side of a link directly from the entity's list bucket.
func verifRawLinked(b *TypedBucket, field string, other string) bool {
	if b == nil {
		return false
	}
	lb := b.GetBucket(field)
	if lb == nil {
		return false
	}
	return lb.Bucket.Get(PrependFieldType(TypeString, []byte(other))) != nil || lb.IsKeyPresent(PrependFieldType(TypeString, []byte(other)))
}

func verifRawCount(b *TypedBucket, field string) int {
	if b == nil {
		return 0
	}
	lb := b.GetBucket(field)
	if lb == nil {
		return 0
	}
	return verifCountKeys(lb.Bucket)
}

// VerifC05_SetLinksMerge: for every current link set E and every requested
// list K (any order, duplicates allowed) over targets with arbitrary ids,
// SetLinks leaves exactly set(K) on the emp side and the matching back links
// on the dept side.
func VerifC05_SetLinksMerge() {
	nDept, maxK := 3, 3
	if verifrt.Tier() == 1 {
		maxK = 4
	}
	env := verifC05Env()
	defer env.close()
	ids := verifrt.SortedSet("dept", nDept, 1, 2)
	verifrt.Assume(len(ids) == nDept)
	deptIds := make([]string, nDept)
	for i := range ids {
		deptIds[i] = string(ids[i])
	}
	env.createEmps("a")
	env.createDepts(deptIds...)
	cur := make([]bool, nDept)
	var curList []string
	for i := range cur {
		cur[i] = verifrt.Choose("cur", 2) == 1
		if cur[i] {
			curList = append(curList, deptIds[i])
		}
	}
	err := env.update(func(ctx MutateContext) error { return env.emp.depts.AddLinks(ctx.Tx(), "a", curList...) })
	verifrt.Assert(err == nil, "C05 AddLinks to existing targets succeeds")
	k := verifrt.Choose("k", maxK+1)
	want := make([]bool, nDept)
	req := make([]string, k)
	for i := 0; i < k; i++ {
		d := verifrt.Choose("req", nDept)
		req[i] = deptIds[d]
		want[d] = true
	}
	err = env.update(func(ctx MutateContext) error { return env.emp.depts.SetLinks(ctx.Tx(), "a", req) })
	verifrt.Assert(err == nil, "C05 SetLinks to existing targets succeeds")
	env.view(func(tx *bbolt.Tx) {
		eb := env.emp.GetEntityBucket(tx, []byte("a"))
		n := 0
		ok := true
		for d := range deptIds {
			fwd := verifRawLinked(eb, vFDepts, deptIds[d])
			back := verifRawLinked(env.dept.GetEntityBucket(tx, []byte(deptIds[d])), vFMembers, "a")
			ok = verifrt.And(ok, verifrt.And(fwd == want[d], back == want[d]))
			if want[d] {
				n++
			}
		}
		verifrt.Assert(ok, "C05 SetLinks leaves exactly the requested set, on both sides")
		verifrt.Assert(verifRawCount(eb, vFDepts) == n, "C05 SetLinks leaves no extra links")
	})
}

// ---- symmetry step over a 2x2 population ----

type vLinkSpec struct {
	emp, dept [2]bool
	link      [2][2]bool // link[e][d]
}

var vDeptIds = []string{"x", "xy"}

func (env *vEnv) checkLinks(sp *vLinkSpec, label string) {
	env.view(func(tx *bbolt.Tx) {
		for e := 0; e < 2; e++ {
			eb := env.emp.GetEntityBucket(tx, []byte(vIds[e]))
			verifrt.Assert((eb != nil) == sp.emp[e], label+": emp present iff spec")
			n := 0
			for d := 0; d < 2; d++ {
				db := env.dept.GetEntityBucket(tx, []byte(vDeptIds[d]))
				fwd := verifRawLinked(eb, vFDepts, vDeptIds[d])
				back := verifRawLinked(db, vFMembers, vIds[e])
				want := sp.emp[e] && sp.dept[d] && sp.link[e][d]
				verifrt.Assert(fwd == want, label+": emp side holds the link iff the spec says so")
				verifrt.Assert(back == want, label+": dept side holds the link iff the spec says so (symmetry)")
				if want {
					n++
				}
				if sp.emp[e] {
					verifrt.Assert(env.emp.depts.IsLinked(tx, []byte(vIds[e]), []byte(vDeptIds[d])) == want, label+": IsLinked agrees")
				}
			}
			verifrt.Assert(verifRawCount(eb, vFDepts) == n, label+": no stray links on the emp side")
			// the collection's own accessors agree with the raw buckets
			if sp.emp[e] {
				verifrt.Assert(len(env.emp.depts.GetLinks(tx, vIds[e])) == n, label+": GetLinks lists exactly the links (emp side)")
				k := 0
				for c := env.emp.depts.IterateLinks(tx, []byte(vIds[e])); c.IsValid(); c.Next() {
					k++
				}
				verifrt.Assert(k == n, label+": IterateLinks yields exactly the links (emp side)")
			}
		}
		for d := 0; d < 2; d++ {
			db := env.dept.GetEntityBucket(tx, []byte(vDeptIds[d]))
			verifrt.Assert((db != nil) == sp.dept[d], label+": dept present iff spec")
			n := 0
			for e := 0; e < 2; e++ {
				if sp.emp[e] && sp.dept[d] && sp.link[e][d] {
					n++
				}
			}
			verifrt.Assert(verifRawCount(db, vFMembers) == n, label+": no stray links on the dept side")
			if sp.dept[d] {
				verifrt.Assert(len(env.dept.members.GetLinks(tx, vDeptIds[d])) == n, label+": GetLinks lists exactly the links (dept side)")
			}
		}
	})
}

func VerifC05_LinkSymmetryStep() {
	env := verifC05Env()
	defer env.close()
	sp := &vLinkSpec{}
	var emps, depts []string
	for i := 0; i < 2; i++ {
		sp.emp[i] = verifrt.Choose("emp", 2) == 1
		if sp.emp[i] {
			emps = append(emps, vIds[i])
		}
	}
	for i := 0; i < 2; i++ {
		sp.dept[i] = verifrt.Choose("dept", 2) == 1
		if sp.dept[i] {
			depts = append(depts, vDeptIds[i])
		}
	}
	env.createEmps(emps...)
	env.createDepts(depts...)
	for e := 0; e < 2; e++ {
		for d := 0; d < 2; d++ {
			if sp.emp[e] && sp.dept[d] && verifrt.Choose("link", 2) == 1 {
				sp.link[e][d] = true
				// built from alternating sides
				var err error
				if (e+d)%2 == 0 {
					err = env.update(func(ctx MutateContext) error { return env.emp.depts.AddLinks(ctx.Tx(), vIds[e], vDeptIds[d]) })
				} else {
					err = env.update(func(ctx MutateContext) error { return env.dept.members.AddLinks(ctx.Tx(), vDeptIds[d], vIds[e]) })
				}
				verifrt.Assert(err == nil, "C05 linking two existing entities succeeds")
			}
		}
	}
	env.checkLinks(sp, "C05 after build")
	// thorough: a history of two operations (the second from whatever the first
	// left behind: emptied link buckets, deleted entities), quick: one step
	steps := 1
	if verifrt.Tier() == 1 {
		steps = 2
	}
	for step := 0; step < steps; step++ {
		next, changed := verifC05One(env, sp)
		if !changed {
			return
		}
		sp = next
	}
}

func verifC05One(env *vEnv, sp *vLinkSpec) (*vLinkSpec, bool) {
	next := *sp
	e := verifrt.Choose("op.emp", 2)
	op := verifrt.Choose("op", 7)
	var err error
	accept := true
	switch op {
	case 0, 1, 2: // AddLinks / RemoveLinks / SetLinks with a list over {x, y} (in either order, possibly repeated)
		var list []string
		var in [2]bool
		n := verifrt.Choose("n", 3)
		for i := 0; i < n; i++ {
			d := verifrt.Choose("d", 2)
			list = append(list, vDeptIds[d])
			in[d] = true
		}
		missing := false
		for d := 0; d < 2; d++ {
			switch op {
			case 0:
				if in[d] {
					next.link[e][d] = true
					missing = missing || !sp.dept[d]
				}
			case 1:
				if in[d] {
					next.link[e][d] = false
				}
			case 2:
				if in[d] && !(sp.link[e][d] && sp.dept[d]) {
					missing = missing || !sp.dept[d]
				}
				next.link[e][d] = in[d]
			}
		}
		accept = sp.emp[e] && !missing
		err = env.update(func(ctx MutateContext) error {
			switch op {
			case 0:
				return env.emp.depts.AddLinks(ctx.Tx(), vIds[e], list...)
			case 1:
				return env.emp.depts.RemoveLinks(ctx.Tx(), vIds[e], list...)
			}
			return env.emp.depts.SetLinks(ctx.Tx(), vIds[e], list)
		})
	case 3, 4: // AddLink / RemoveLink with their changed flag
		d := verifrt.Choose("d", 2)
		was := sp.emp[e] && sp.dept[d] && sp.link[e][d]
		var changed bool
		err = env.update(func(ctx MutateContext) error {
			var err error
			if op == 3 {
				changed, err = env.emp.depts.AddLink(ctx.Tx(), []byte(vIds[e]), []byte(vDeptIds[d]))
			} else {
				changed, err = env.emp.depts.RemoveLink(ctx.Tx(), []byte(vIds[e]), []byte(vDeptIds[d]))
			}
			return err
		})
		if op == 3 {
			accept = sp.emp[e] && sp.dept[d]
			next.link[e][d] = true
			if err == nil {
				verifrt.Assert(changed == !was, "C05 AddLink reports whether the link is new")
			}
		} else {
			accept = sp.emp[e]
			next.link[e][d] = false
			if err == nil {
				verifrt.Assert(changed == was, "C05 RemoveLink reports whether a link was removed")
			}
		}
	case 5: // delete the emp
		accept = sp.emp[e]
		next.emp[e] = false
		next.link[e] = [2]bool{}
		err = env.update(func(ctx MutateContext) error { return env.emp.DeleteById(ctx, vIds[e]) })
	case 6: // delete a dept
		d := e
		accept = sp.dept[d]
		next.dept[d] = false
		next.link[0][d], next.link[1][d] = false, false
		err = env.update(func(ctx MutateContext) error { return env.dept.DeleteById(ctx, vDeptIds[d]) })
	}
	verifrt.Assert((err == nil) == accept, "C05 link operation accepted iff both entities exist (linking to a missing entity fails)")
	if err != nil {
		env.checkLinks(sp, "C05 after a rejected operation (unchanged)")
		return sp, false
	}
	env.checkLinks(&next, "C05 after the operation")
	return &next, true
}

// ---- reference-counted links ----

func verifRawLinkCount(b *TypedBucket, field, other string) *int32 {
	if b == nil {
		return nil
	}
	lb := b.GetBucket(field)
	if lb == nil {
		return nil
	}
	return lb.GetLinkCount(TypeString, []byte(other))
}

// VerifC05_RefCountedStep: from an arbitrary symmetric count (absent or any
// positive int32 below 2^30), one operation keeps both sides equal and
// positive, or both absent.
func VerifC05_RefCountedStep() {
	env := verifC05Env()
	defer env.close()
	env.createEmps("a")
	env.createDepts("x")
	linked := verifrt.Choose("linked", 2) == 1
	c0 := verifrt.Int32("count")
	verifrt.Assume(verifrt.And(c0 >= 1, c0 < 1<<30))
	if linked {
		err := env.update(func(ctx MutateContext) error {
			_, _, err := env.emp.rcDepts.SetLinkCount(ctx.Tx(), []byte("a"), []byte("x"), int(c0))
			return err
		})
		verifrt.Assert(err == nil, "C05 SetLinkCount to a positive count succeeds")
	}
	cur := int32(0)
	if linked {
		cur = c0
	}
	op := verifrt.Choose("op", 6)
	fromDept := verifrt.Choose("side", 2) == 1
	var err error
	want := cur
	gone := false
	switch op {
	case 0: // increment
		want = cur + 1
		var got int
		err = env.update(func(ctx MutateContext) error {
			var err error
			if fromDept {
				got, err = env.dept.rcMembers.IncrementLinkCount(ctx.Tx(), []byte("x"), []byte("a"))
			} else {
				got, err = env.emp.rcDepts.IncrementLinkCount(ctx.Tx(), []byte("a"), []byte("x"))
			}
			return err
		})
		verifrt.Assert(err == nil, "C05 increment succeeds")
		verifrt.Assert(int32(got) == want, "C05 increment returns the new count")
	case 1: // decrement
		if cur > 0 {
			want = cur - 1
		}
		err = env.update(func(ctx MutateContext) error {
			var err error
			if fromDept {
				_, err = env.dept.rcMembers.DecrementLinkCount(ctx.Tx(), []byte("x"), []byte("a"))
			} else {
				_, err = env.emp.rcDepts.DecrementLinkCount(ctx.Tx(), []byte("a"), []byte("x"))
			}
			return err
		})
		verifrt.Assert(err == nil, "C05 decrement succeeds")
	case 2: // set to an arbitrary count in [0, 2^31)
		n := verifrt.Int32("newcount")
		verifrt.Assume(n >= 0)
		want = n
		err = env.update(func(ctx MutateContext) error {
			_, _, err := env.emp.rcDepts.SetLinkCount(ctx.Tx(), []byte("a"), []byte("x"), int(n))
			return err
		})
		verifrt.Assert(err == nil, "C05 SetLinkCount succeeds")
	case 3: // delete the emp
		gone = true
		err = env.update(func(ctx MutateContext) error { return env.emp.DeleteById(ctx, "a") })
		verifrt.Assert(err == nil, "C05 delete emp succeeds")
	case 4: // delete the dept
		gone = true
		err = env.update(func(ctx MutateContext) error { return env.dept.DeleteById(ctx, "x") })
		verifrt.Assert(err == nil, "C05 delete dept succeeds")
	case 5: // increment a link to a missing entity
		err = env.update(func(ctx MutateContext) error {
			_, err := env.emp.rcDepts.IncrementLinkCount(ctx.Tx(), []byte("a"), []byte("nope"))
			return err
		})
		verifrt.Assert(err != nil, "C05 ref-counted link to a missing entity fails")
	}
	env.view(func(tx *bbolt.Tx) {
		l := verifRawLinkCount(env.emp.GetEntityBucket(tx, []byte("a")), vFRcDepts, "x")
		r := verifRawLinkCount(env.dept.GetEntityBucket(tx, []byte("x")), vFRcMembers, "a")
		if gone {
			verifrt.Assert(l == nil && r == nil, "C05 ref-counted link gone from both sides after an entity delete")
			return
		}
		if l == nil || r == nil {
			verifrt.Assert(l == nil && r == nil, "C05 ref-counted link absent on both sides or on neither")
			verifrt.Assert(want == 0, "C05 link absent only when the count is zero")
			return
		}
		verifrt.Assert(verifrt.And(*l == *r, verifrt.And(*l > 0, *l == want)), "C05 both sides hold the same positive expected count")
	})
}

// VerifC05_LinksThroughEntityPersistence: the emp's links to depts are given
// as a field of the entity (PersistContext.SetLinkedIds). Create with a list,
// then an update (full or restricted by a field checker that selects the link
// field or not) with another list; lists draw from two existing depts and a
// missing one, in any order with repeats. Accepted iff every target exists (and
// the field is written at all); afterwards both sides hold exactly the
// requested set; a rejected operation changes nothing.
func VerifC05_LinksThroughEntityPersistence() {
	env := verifC05Env()
	defer env.close()
	env.createDepts(vDeptIds...)
	univ := []string{vDeptIds[0], vDeptIds[1], "missing"}
	symList := func(tag string) ([]string, [2]bool, bool) {
		n := verifrt.Choose(tag+".len", 3)
		var out []string
		var want [2]bool
		bad := false
		for i := 0; i < n; i++ {
			k := verifrt.Choose(tag+".id", 3)
			out = append(out, univ[k])
			if k < 2 {
				want[k] = true
			} else {
				bad = true
			}
		}
		return out, want, bad
	}
	sp := &vLinkSpec{dept: [2]bool{true, true}}
	sp.emp[0] = true
	l1, w1, bad1 := symList("create")
	err := env.update(func(ctx MutateContext) error {
		return env.emp.Create(ctx, &vEmp{Id: vIds[0], Name: "Na", DeptIds: &l1})
	})
	verifrt.Assert((err == nil) == !bad1, "C05 creating an entity with a link list is accepted iff every target exists")
	if err != nil {
		env.view(func(tx *bbolt.Tx) {
			verifrt.Assert(env.emp.GetEntityBucket(tx, []byte(vIds[0])) == nil, "C05 a rejected create leaves nothing")
			for d := range vDeptIds {
				verifrt.Assert(!verifRawLinked(env.dept.GetEntityBucket(tx, []byte(vDeptIds[d])), vFMembers, vIds[0]), "C05 a rejected create leaves no half link")
			}
		})
		return
	}
	sp.link[0] = w1
	env.checkLinks(sp, "C05 after create with a link list")
	l2, w2, bad2 := symList("update")
	var checker FieldChecker
	written := true
	switch verifrt.Choose("checker", 3) {
	case 1:
		checker = MapFieldChecker{vFDepts: struct{}{}}
	case 2:
		checker = MapFieldChecker{vFName: struct{}{}}
		written = false
	}
	err = env.update(func(ctx MutateContext) error {
		return env.emp.Update(ctx, &vEmp{Id: vIds[0], Name: "Na", DeptIds: &l2}, checker)
	})
	verifrt.Assert((err == nil) == (!written || !bad2), "C05 updating the link list is accepted iff it is not written or every target exists")
	if err == nil && written {
		sp.link[0] = w2
	}
	env.checkLinks(sp, "C05 after update of the link list")
}

// VerifC05_LinkOpsInWritingTx: the link operations inside a transaction that
// has already written to the entity's link bucket (bbolt then iterates live
// nodes, where removing under a cursor shifts what follows): the emp is linked
// to four adjacent depts and, in the SAME transaction, SetLinks / RemoveLinks
// with an arbitrary subset follows. Both sides hold exactly the expected set.
func VerifC05_LinkOpsInWritingTx() {
	env := verifC05Env()
	defer env.close()
	depts := []string{"d1", "d2", "d3", "d4"}
	env.createDepts(depts...)
	env.createEmps("a")
	keep := make([]bool, len(depts))
	var list []string
	for i, d := range depts {
		keep[i] = verifrt.Bool("in.list")
		if keep[i] {
			list = append(list, d)
		}
	}
	op := verifrt.Choose("op", 4) // 0 SetLinks(list), 1 RemoveLinks(list), 2 RemoveLink one by one, 3 AddLink again one by one
	flagsOk := true
	err := env.update(func(ctx MutateContext) error {
		if err := env.emp.depts.AddLinks(ctx.Tx(), "a", depts...); err != nil {
			return err
		}
		switch op {
		case 0:
			return env.emp.depts.SetLinks(ctx.Tx(), "a", list)
		case 1:
			return env.emp.depts.RemoveLinks(ctx.Tx(), "a", list...)
		}
		for _, d := range list {
			var changed bool
			var err error
			if op == 2 {
				changed, err = env.emp.depts.RemoveLink(ctx.Tx(), []byte("a"), []byte(d))
				flagsOk = flagsOk && changed // the link was there: written earlier in this transaction
			} else {
				changed, err = env.emp.depts.AddLink(ctx.Tx(), []byte("a"), []byte(d))
				flagsOk = flagsOk && !changed // already linked
			}
			if err != nil {
				return err
			}
		}
		return nil
	})
	verifrt.Assert(flagsOk, "C05 AddLink / RemoveLink report the truth about links written earlier in the same transaction")
	verifrt.Assert(err == nil, "C05 link operations in one transaction succeed")
	env.view(func(tx *bbolt.Tx) {
		eb := env.emp.GetEntityBucket(tx, []byte("a"))
		n := 0
		for i, d := range depts {
			want := keep[i] == (op == 0)
			if op == 2 {
				want = !keep[i]
			} else if op == 3 {
				want = true
			}
			if want {
				n++
			}
			verifrt.Assert(verifRawLinked(eb, vFDepts, d) == want, "C05 after link operations in a writing transaction the emp side holds exactly the expected links")
			verifrt.Assert(verifRawLinked(env.dept.GetEntityBucket(tx, []byte(d)), vFMembers, "a") == want, "C05 ... and so does the dept side")
		}
		verifrt.Assert(verifRawCount(eb, vFDepts) == n, "C05 no stray links after link operations in a writing transaction")
	})
}

// VerifC05_CompoundLinks: the one-sided link primitives keyed by a compound
// key (AddCompoundLink / RemoveCompoundLink over EncodeStringSlice, AddLinkS):
// a list of 0..2 strings of <=1 arbitrary byte is linked after the add, a list
// is reported linked iff it is the same list, removing a different list
// removes nothing, and linking from a missing entity fails.
func VerifC05_CompoundLinks() {
	env := verifC05Env()
	defer env.close()
	env.createEmps("a")
	sym := &LinkedSetSymbol{EntitySymbol: env.emp.symDepts}
	mk := func(tag string) []string {
		n := verifrt.Choose(tag+".len", 3)
		l := make([]string, n)
		for i := range l {
			l[i] = verifrt.StringUpTo(tag, 1)
		}
		return l
	}
	x, y := mk("x"), mk("y")
	same := len(x) == len(y)
	if same {
		for i := range x {
			same = verifrt.And(same, x[i] == y[i])
		}
	}
	missing := verifrt.Bool("entity.missing")
	id := "a"
	if missing {
		id = "zz"
	}
	err := env.update(func(ctx MutateContext) error { return sym.AddCompoundLink(ctx.Tx(), id, x) })
	verifrt.Assert((err == nil) == !missing, "C05 a compound link from a missing entity fails, any other succeeds")
	if missing {
		return
	}
	kx, errx := EncodeStringSlice(x)
	ky, erry := EncodeStringSlice(y)
	verifrt.Assert(errx == nil && erry == nil, "C05 compound keys encode")
	env.view(func(tx *bbolt.Tx) {
		verifrt.Assert(sym.IsLinked(tx, []byte("a"), kx), "C05 the compound link is present after the add")
		verifrt.Assert(sym.IsLinked(tx, []byte("a"), ky) == same, "C05 a compound key is linked iff it is the same list")
		verifrt.Assert(verifRawCount(env.emp.GetEntityBucket(tx, []byte("a")), vFDepts) == 1, "C05 exactly one compound link stored")
	})
	err = env.update(func(ctx MutateContext) error { return sym.RemoveCompoundLink(ctx.Tx(), "a", y) })
	verifrt.Assert(err == nil, "C05 removing a compound link succeeds (also one that is not there)")
	env.view(func(tx *bbolt.Tx) {
		verifrt.Assert(sym.IsLinked(tx, []byte("a"), kx) == !same, "C05 removing a list removes exactly that list")
		want := 1
		if same {
			want = 0
		}
		verifrt.Assert(verifRawCount(env.emp.GetEntityBucket(tx, []byte("a")), vFDepts) == want, "C05 link count after the removal")
	})
	err = env.update(func(ctx MutateContext) error { return sym.AddLinkS(ctx.Tx(), "a", "p") })
	verifrt.Assert(err == nil, "C05 AddLinkS succeeds")
	env.view(func(tx *bbolt.Tx) {
		verifrt.Assert(sym.IsLinked(tx, []byte("a"), []byte("p")), "C05 AddLinkS links the plain key")
	})
}
