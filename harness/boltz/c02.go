//go:build verif

package boltz

import (
	"strings"

	"go.etcd.io/bbolt"

	"github.com/openziti/storage/ast"
	"github.com/openziti/storage/verifrt"
)

// sort specifications exercised (the program dimension; parsed by the real
// parser). key: which fields, in which direction.
type vSortField = verifrt.SortField

type vSortSpec struct {
	text   string
	fields []vSortField
}

var vSortSpecs = []vSortSpec{
	{"m = true", nil},
	{"m = true sort by id", []vSortField{{"id", true}}},
	{"m = true sort by id desc", []vSortField{{"id", false}}},
	{"m = true sort by s", []vSortField{{"s", true}}},
	{"m = true sort by s desc", []vSortField{{"s", false}}},
	{"m = true sort by i", []vSortField{{"i", true}}},
	{"m = true sort by i desc", []vSortField{{"i", false}}},
	{"m = true sort by f asc", []vSortField{{"f", true}}},
	{"m = true sort by f desc", []vSortField{{"f", false}}},
	{"m = true sort by b", []vSortField{{"b", true}}},
	{"m = true sort by t", []vSortField{{"t", true}}},
	{"m = true sort by t desc, i", []vSortField{{"t", false}, {"i", true}}},
	{"m = true sort by b desc, i", []vSortField{{"b", false}, {"i", true}}},
	{"m = true sort by i, s desc", []vSortField{{"i", true}, {"s", false}}},
	{"m = true sort by b, i, s, f, id desc", []vSortField{{"b", true}, {"i", true}, {"s", true}, {"f", true}, {"id", false}}},
	{"m = true sort by b, i desc, s, f desc, m", []vSortField{{"b", true}, {"i", false}, {"s", true}, {"f", false}, {"m", true}}},
}

func init() {
	verifQueryFamilies = append(verifQueryFamilies, func() []string {
		var qs []string
		for _, s := range vSortSpecs {
			qs = append(qs, s.text, s.text+" limit none", s.text+" skip 1", s.text+" skip 1 limit 1", s.text+" limit 2")
		}
		return qs
	})
}

func verifC02Rows(n int, spec []vSortField) []*vRow {
	need := map[string]bool{}
	for _, f := range spec {
		need[f.Field] = true
	}
	if len(spec) == 1 && spec[0].Field == "m" {
		need = map[string]bool{} // FiveFieldTies: all other keys stay null
	}
	rows := make([]*vRow, n)
	for r := range rows {
		row := &vRow{Id: vIds[r], M: verifrt.Bool("match")}
		if need["s"] {
			row.S = verifSymOptString("s", 1)
		}
		if need["i"] {
			row.I = verifOptInt64("i")
		}
		if need["f"] {
			row.F = verifOptFloat64("f")
			if row.F != nil {
				verifrt.Assume(*row.F == *row.F) // NaN sort keys have no defined place
			}
		}
		if need["b"] {
			row.B = verifOptBool("b")
		}
		if need["t"] && verifrt.Choose("t.nil", 2) == 1 {
			v := verifrt.TimeUTC("t") // any instant of year 1..9999
			row.T = &v
		}
		rows[r] = row
	}
	return rows
}

func verifC02(specs []vSortSpec) { verifC02N(specs, 0, "", false) }

// maxRows 0: 2 rows quick, 3 thorough; keepNull: fields whose keys stay null;
// noPaging: no skip / limit
func verifC02N(specs []vSortSpec, maxRows int, keepNull string, noPaging bool) {
	n := 2
	if verifrt.Tier() == 1 {
		n = 3
	}
	if maxRows > 0 {
		n = maxRows
	}
	spec := specs[verifrt.Choose("spec", len(specs))]
	env := verifNewRowEnv()
	defer env.close()
	nRows := verifrt.Choose("rows", n+1)
	var fields []vSortField
	for _, f := range spec.fields {
		if !strings.Contains(keepNull, f.Field) {
			fields = append(fields, f)
		}
	}
	rows := verifC02Rows(nRows, fields)
	err := env.update(func(ctx MutateContext) error {
		for _, r := range rows {
			if err := env.rows.Create(ctx, r); err != nil {
				return err
			}
		}
		return nil
	})
	verifrt.Assert(err == nil, "C02 creating rows succeeds")
	p := verifrt.Paging{}
	if !noPaging {
		p = verifrt.SymPaging()
	}
	env.view(func(tx *bbolt.Tx) {
		q, err := ast.Parse(env.rows, spec.text)
		verifrt.Assert(err == nil, "C02 query parses: "+spec.text)
		p.Apply(q)
		ids, count, err := env.rows.QueryIdsC(tx, q)
		verifrt.Assert(err == nil, "C02 query runs")
		verifrt.CheckPage(verifToRows(rows), verifMatchBits(rows), spec.fields, p, ids, count, "C02 "+spec.text)
		if len(spec.fields) == 0 {
			// cursor-style iteration serves the same (unsorted) query
			q2, _ := ast.Parse(env.rows, spec.text)
			p.Apply(q2)
			var got []string
			for c := env.rows.IterateIds(tx, q2); c.IsValid(); c.Next() {
				got = append(got, string(c.Current()))
			}
			same := len(got) == len(ids)
			if same {
				for i := range got {
					same = same && got[i] == ids[i]
				}
			}
			verifrt.Assert(same, "C02 cursor-style iteration returns the same page as the scan")
		}
	})
}

func VerifC02_IdOrderPaging() { verifC02(vSortSpecs[:3]) }

// five sort fields (the documented maximum), all keys null: every row ties on
// all five, so the order must come from the id tie-break alone
func VerifC02_FiveFieldTies() {
	spec := vSortSpecs[len(vSortSpecs)-1]
	verifC02([]vSortSpec{{spec.text, []vSortField{{"m", true}}}})
}

// quick: one single-field sort per key type and direction mix plus one
// two-field sort over two rows; thorough: every single- and two-field
// specification over three rows.
func VerifC02_SortedPaging() {
	if verifrt.Tier() == 1 {
		verifC02(vSortSpecs[3 : len(vSortSpecs)-2])
		return
	}
	verifC02([]vSortSpec{verifSpec("m = true sort by s"), verifSpec("m = true sort by i desc"), verifSpec("m = true sort by f desc"), verifSpec("m = true sort by b desc, i"), verifSpec("m = true sort by t")})
}

// the five-field specification with arbitrary (nullable) keys in every
// field: two rows (three rows x four nullable symbolic keys x paging is past
// the path budget; ties on a prefix of the fields are covered by two rows)
func VerifC02_FiveFieldSort() {
	spec := []vSortSpec{vSortSpecs[len(vSortSpecs)-2]}
	if verifrt.Tier() == 1 {
		verifC02N(spec, 2, "", true) // every key arbitrary, whole result
		return
	}
	verifC02N(spec, 2, "sf", false) // s and f stay null (ties carried through them), paging symbolic
}

func verifToRows(rows []*vRow) []*verifrt.Row {
	out := make([]*verifrt.Row, len(rows))
	for i, r := range rows {
		out[i] = &verifrt.Row{Id: r.Id, S: r.S, I: r.I, F: r.F, B: r.B, M: r.M, T: r.T}
	}
	return out
}

func verifMatchBits(rows []*vRow) []bool {
	out := make([]bool, len(rows))
	for i, r := range rows {
		out[i] = r.M
	}
	return out
}

func verifSpec(text string) vSortSpec {
	for _, sp := range vSortSpecs {
		if sp.text == text {
			return sp
		}
	}
	panic("verif: no such sort spec: " + text)
}

// VerifC02_QueryOverProvidedCursor: QueryWithCursorC pages and sorts over the
// ids a caller-supplied cursor yields (here an arbitrary subset of the rows,
// served in the direction the scanner asks for): count, page and order are
// those of the reference model restricted to that subset.
func VerifC02_QueryOverProvidedCursor() {
	n := 2
	if verifrt.Tier() == 1 {
		n = 3
	}
	specs := []vSortSpec{verifSpec("m = true"), verifSpec("m = true sort by id desc"), verifSpec("m = true sort by i desc")}
	spec := specs[verifrt.Choose("spec", len(specs))]
	env := verifNewRowEnv()
	defer env.close()
	rows := verifC02Rows(n, spec.fields)
	sub := make([]bool, n)
	var subRows []*vRow
	for r := range rows {
		sub[r] = verifrt.Bool("in.cursor")
		if sub[r] {
			subRows = append(subRows, rows[r])
		}
	}
	err := env.update(func(ctx MutateContext) error {
		for _, r := range rows {
			if err := env.rows.Create(ctx, r); err != nil {
				return err
			}
		}
		return nil
	})
	verifrt.Assert(err == nil, "C02 creating rows succeeds")
	p := verifrt.SymPaging()
	provider := func(tx *bbolt.Tx, forward bool) ast.SetCursor {
		ts := ast.NewTreeSet(forward)
		for _, r := range subRows {
			ts.Add([]byte(r.Id))
		}
		return ts.ToCursor()
	}
	env.view(func(tx *bbolt.Tx) {
		q, err := ast.Parse(env.rows, spec.text)
		verifrt.Assert(err == nil, "C02 query parses: "+spec.text)
		p.Apply(q)
		ids, count, err := env.rows.QueryWithCursorC(tx, provider, q)
		verifrt.Assert(err == nil, "C02 query over a provided cursor runs")
		verifrt.CheckPage(verifToRows(subRows), verifMatchBits(subRows), spec.fields, p, ids, count, "C02 provided cursor: "+spec.text)
	})
}
