//go:build verif

package boltz

import (
	"go.etcd.io/bbolt"

	"github.com/openziti/storage/ast"
	"github.com/openziti/storage/verifrt"
)

// sort specifications exercised (the program dimension; parsed by the real
// parser). key: which fields, in which direction.
type vSortField struct {
	field string // "s", "i", "f", "b", "id"
	asc   bool
}

type vSortSpec struct {
	text   string
	fields []vSortField
}

var vSortSpecs = []vSortSpec{
	{"m = true", nil},
	{"m = true sort by id", []vSortField{{"id", true}}},
	{"m = true sort by id desc", []vSortField{{"id", false}}},
	{"m = true sort by s", []vSortField{{"s", true}}},
	{"m = true sort by s desc", []vSortField{{"s", false}}},
	{"m = true sort by i", []vSortField{{"i", true}}},
	{"m = true sort by i desc", []vSortField{{"i", false}}},
	{"m = true sort by f asc", []vSortField{{"f", true}}},
	{"m = true sort by f desc", []vSortField{{"f", false}}},
	{"m = true sort by b", []vSortField{{"b", true}}},
	{"m = true sort by b desc, i", []vSortField{{"b", false}, {"i", true}}},
	{"m = true sort by i, s desc", []vSortField{{"i", true}, {"s", false}}},
	{"m = true sort by b, i, s, f, id desc", []vSortField{{"b", true}, {"i", true}, {"s", true}, {"f", true}, {"id", false}}},
	{"m = true sort by b, i desc, s, f desc, m", []vSortField{{"b", true}, {"i", false}, {"s", true}, {"f", false}, {"m", true}}},
}

func init() {
	verifQueryFamilies = append(verifQueryFamilies, func() []string {
		var qs []string
		for _, s := range vSortSpecs {
			qs = append(qs, s.text, s.text+" limit none", s.text+" skip 1", s.text+" skip 1 limit 1", s.text+" limit 2")
		}
		return qs
	})
}

// cmpField: -1 / 0 / +1 of rows x, y on one field ascending (nulls first),
// as a fork-free int64 term.
func verifCmpField(f string, x, y *vRow, xi, yi int) int64 {
	lt, gt := false, false
	nullLess := func(xn, yn bool, vlt, vgt bool) (bool, bool) {
		// xn/yn: null flags (concrete per path); vlt/vgt: value comparison when both non-null
		if xn {
			return !yn, false
		}
		if yn {
			return false, true
		}
		return vlt, vgt
	}
	switch f {
	case "id":
		lt, gt = xi < yi, xi > yi // ids are in slot order
	case "s":
		var vlt, vgt bool
		if x.S != nil && y.S != nil {
			vlt, vgt = *x.S < *y.S, *x.S > *y.S
		}
		lt, gt = nullLess(x.S == nil, y.S == nil, vlt, vgt)
	case "i":
		var vlt, vgt bool
		if x.I != nil && y.I != nil {
			vlt, vgt = *x.I < *y.I, *x.I > *y.I
		}
		lt, gt = nullLess(x.I == nil, y.I == nil, vlt, vgt)
	case "f":
		var vlt, vgt bool
		if x.F != nil && y.F != nil {
			vlt, vgt = *x.F < *y.F, *x.F > *y.F
		}
		lt, gt = nullLess(x.F == nil, y.F == nil, vlt, vgt)
	case "m":
		lt, gt = verifrt.And(verifrt.Not(x.M), y.M), verifrt.And(x.M, verifrt.Not(y.M))
	case "b":
		var vlt, vgt bool
		if x.B != nil && y.B != nil {
			vlt, vgt = verifrt.And(verifrt.Not(*x.B), *y.B), verifrt.And(*x.B, verifrt.Not(*y.B))
		}
		lt, gt = nullLess(x.B == nil, y.B == nil, vlt, vgt)
	}
	return verifrt.IteInt64(lt, -1, verifrt.IteInt64(gt, 1, 0))
}

// precedes: does row x come strictly before row y under the sort spec
// (remaining ties broken by id ascending)?
func verifPrecedes(spec []vSortField, x, y *vRow, xi, yi int) bool {
	res := xi < yi // final tie-break
	for k := len(spec) - 1; k >= 0; k-- {
		c := verifCmpField(spec[k].field, x, y, xi, yi)
		if !spec[k].asc {
			c = -c
		}
		res = verifrt.IteBool(c < 0, true, verifrt.IteBool(c > 0, false, res))
	}
	return res
}

type vPaging struct {
	hasSkip  bool
	skip     int64
	limitSet int // 0 absent, 1 "none", 2 value
	limit    int64
}

func verifSymPaging() vPaging {
	p := vPaging{}
	p.hasSkip = verifrt.Choose("skip.set", 2) == 1
	if p.hasSkip {
		p.skip = verifrt.Int64("skip")
	}
	p.limitSet = verifrt.Choose("limit.set", 3)
	if p.limitSet == 2 {
		p.limit = verifrt.Int64("limit")
	}
	return p
}

func (p vPaging) apply(q ast.Query) {
	if p.hasSkip {
		q.SetSkip(p.skip)
	}
	switch p.limitSet {
	case 1:
		q.SetLimit(-1) // what `limit none` parses to
	case 2:
		q.SetLimit(p.limit)
	}
}

// expected page: k = max(skip,0) rows dropped, at most limit kept (absent,
// negative, none = unbounded); all arithmetic overflow-free.
func (p vPaging) expectLen(nMatch int64) int64 {
	k := int64(0)
	if p.hasSkip {
		k = verifrt.IteInt64(p.skip > 0, p.skip, 0)
	}
	rest := verifrt.IteInt64(k >= nMatch, 0, nMatch-k) // nMatch - k cannot overflow when k < nMatch
	if p.limitSet == 2 {
		lim := verifrt.IteInt64(p.limit < 0, rest, p.limit)
		return verifrt.IteInt64(lim < rest, lim, rest)
	}
	return rest
}

func (p vPaging) offset() int64 {
	if p.hasSkip {
		return verifrt.IteInt64(p.skip > 0, p.skip, 0)
	}
	return 0
}

func verifC02Rows(n int, spec []vSortField) []*vRow {
	need := map[string]bool{}
	for _, f := range spec {
		need[f.field] = true
	}
	if len(spec) == 1 && spec[0].field == "m" {
		need = map[string]bool{} // FiveFieldTies: all other keys stay null
	}
	rows := make([]*vRow, n)
	for r := range rows {
		row := &vRow{Id: vIds[r], M: verifrt.Bool("match")}
		if need["s"] {
			row.S = verifSymOptString("s", 1)
		}
		if need["i"] {
			row.I = verifOptInt64("i")
		}
		if need["f"] {
			row.F = verifOptFloat64("f")
			if row.F != nil {
				verifrt.Assume(*row.F == *row.F) // NaN sort keys have no defined place
			}
		}
		if need["b"] {
			row.B = verifOptBool("b")
		}
		rows[r] = row
	}
	return rows
}

// checkPage: ids == the matching rows of rank offset, offset+1, ... in the
// specified order; count == number of matching rows.
func verifCheckPage(rows []*vRow, spec []vSortField, p vPaging, ids []string, count int64, label string) {
	n := len(rows)
	nMatch := int64(0)
	rank := make([]int64, n)
	for i := range rows {
		nMatch += verifrt.IteInt64(rows[i].M, 1, 0)
		for j := range rows {
			if j != i {
				rank[i] += verifrt.IteInt64(verifrt.And(rows[j].M, verifPrecedes(spec, rows[j], rows[i], j, i)), 1, 0)
			}
		}
	}
	verifrt.Assert(count == nMatch, label+": count is the number of matching rows, whatever skip and limit are")
	verifrt.Assert(int64(len(ids)) == p.expectLen(nMatch), label+": page length = min(limit, matches - max(skip,0))")
	off := p.offset()
	ok := true
	for pos, id := range ids {
		hit := false
		for i := range rows {
			// rank_i == off + pos, written without overflow
			hit = verifrt.Or(hit, verifrt.And(verifrt.And(rows[i].M, id == rows[i].Id), rank[i]-int64(pos) == off))
		}
		ok = verifrt.And(ok, hit)
	}
	verifrt.Assert(ok, label+": page holds the matching rows in the requested order, ties by id")
}

func verifC02(specs []vSortSpec) {
	n := 2
	if verifrt.Tier() == 1 {
		n = 3
	}
	spec := specs[verifrt.Choose("spec", len(specs))]
	env := verifNewRowEnv()
	defer env.close()
	nRows := verifrt.Choose("rows", n+1)
	rows := verifC02Rows(nRows, spec.fields)
	err := env.update(func(ctx MutateContext) error {
		for _, r := range rows {
			if err := env.rows.Create(ctx, r); err != nil {
				return err
			}
		}
		return nil
	})
	verifrt.Assert(err == nil, "C02 creating rows succeeds")
	p := verifSymPaging()
	env.view(func(tx *bbolt.Tx) {
		q, err := ast.Parse(env.rows, spec.text)
		verifrt.Assert(err == nil, "C02 query parses: "+spec.text)
		p.apply(q)
		ids, count, err := env.rows.QueryIdsC(tx, q)
		verifrt.Assert(err == nil, "C02 query runs")
		overflow := false
		if p.hasSkip && p.limitSet != 2 {
			overflow = p.skip > 0
		}
		_ = overflow
		verifCheckPage(rows, spec.fields, p, ids, count, "C02 "+spec.text)
		if len(spec.fields) == 0 {
			// cursor-style iteration serves the same (unsorted) query
			q2, _ := ast.Parse(env.rows, spec.text)
			p.apply(q2)
			var got []string
			for c := env.rows.IterateIds(tx, q2); c.IsValid(); c.Next() {
				got = append(got, string(c.Current()))
			}
			same := len(got) == len(ids)
			if same {
				for i := range got {
					same = same && got[i] == ids[i]
				}
			}
			verifrt.Assert(same, "C02 cursor-style iteration returns the same page as the scan")
		}
	})
}

func VerifC02_IdOrderPaging() { verifC02(vSortSpecs[:3]) }

// five sort fields (the documented maximum), all keys null: every row ties on
// all five, so the order must come from the id tie-break alone
func VerifC02_FiveFieldTies() {
	spec := vSortSpecs[len(vSortSpecs)-1]
	verifC02([]vSortSpec{{spec.text, []vSortField{{"m", true}}}})
}

// quick: one single-field sort per key type and direction mix plus one
// two-field sort; thorough: every listed specification (incl. the five-field
// one) over three rows.
func VerifC02_SortedPaging() {
	if verifrt.Tier() == 1 {
		verifC02(vSortSpecs[3 : len(vSortSpecs)-1])
		return
	}
	verifC02([]vSortSpec{vSortSpecs[3], vSortSpecs[6], vSortSpecs[8], vSortSpecs[10]})
}
