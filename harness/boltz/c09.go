//go:build verif

package boltz

import (
	"bytes"
	"context"

	"go.etcd.io/bbolt"

	"github.com/openziti/storage/verifrt"
)

type vDumpEntry struct {
	path   string
	key    []byte
	val    []byte
	bucket bool
}

// verifDump lists the logical content of the database: every key/value and
// every bucket that (transitively) holds one. Buckets without any content are
// left out: the code creates field and index buckets lazily, also on read
// paths, and an empty bucket carries no information.
func verifDump(tx *bbolt.Tx) []vDumpEntry {
	var walk func(path string, c *bbolt.Cursor, get func(k []byte) *bbolt.Bucket) []vDumpEntry
	walk = func(path string, c *bbolt.Cursor, get func(k []byte) *bbolt.Bucket) []vDumpEntry {
		var out []vDumpEntry
		for k, v := c.First(); k != nil; k, v = c.Next() {
			if v == nil {
				if sub := get(k); sub != nil {
					inner := walk(path+"/", sub.Cursor(), sub.Bucket)
					if len(inner) > 0 {
						out = append(out, vDumpEntry{path: path, key: verifrt.CopyBytes(k), bucket: true})
						out = append(out, inner...)
					}
					continue
				}
			}
			out = append(out, vDumpEntry{path: path, key: verifrt.CopyBytes(k), val: verifrt.CopyBytes(v)})
		}
		return out
	}
	return walk("", tx.Cursor(), tx.Bucket)
}

func verifDumpEqual(a, b []vDumpEntry) bool {
	if len(a) != len(b) {
		return false
	}
	ok := true
	for i := range a {
		if a[i].path != b[i].path || a[i].bucket != b[i].bucket {
			return false
		}
		ok = verifrt.And(ok, verifrt.And(bytes.Equal(a[i].key, b[i].key), bytes.Equal(a[i].val, b[i].val)))
	}
	return ok
}

type vSink struct {
	total, fixed int
}

func (s *vSink) sink(err error, fixed bool) {
	s.total++
	if fixed {
		s.fixed++
	}
}

func (env *vEnv) checkIntegrity(fix bool) (*vSink, error) { return env.checkIntegrityW(fix, false) }

// writeFirst: the same transaction first creates and deletes a scratch entity,
// so the index buckets have already been written to when the check runs
func (env *vEnv) checkIntegrityW(fix bool, writeFirst bool) (*vSink, error) {
	s := &vSink{}
	err := env.db.Update(NewMutateContext(context.Background()), func(ctx MutateContext) error {
		if writeFirst {
			scratch := &vEmp{Id: "zscratch", Name: "~scratch", Roles: []string{"r1", "r2"}}
			if err := env.emp.Create(ctx, scratch); err != nil {
				return err
			}
			if err := env.emp.DeleteById(ctx, scratch.Id); err != nil {
				return err
			}
		}
		if err := env.emp.CheckIntegrity(ctx, fix, s.sink); err != nil {
			return err
		}
		return env.dept.CheckIntegrity(ctx, fix, s.sink)
	})
	return s, err
}

// corruption classes of the statement
const (
	vCorNone = iota
	vCorUniqueMissing
	vCorUniqueExtraForMissingEntity
	vCorUniqueWrongTarget
	vCorSetMissingMember
	vCorSetExtraMember
	vCorSetMemberOfMissingEntity
	vCorSetEmptyKey
	vCorFkMissingBackref
	vCorFkExtraBackref
	vCorFkBackrefOfMissingEntity
	vCorFkDangling
	vCorLinkOneSidedForward
	vCorLinkOneSidedBackward
	vCorLinkDangling
	vCorSetStrayValueKey
	vCorFkBackrefBucketMissing
	vCorNullableUniqueStale
	vCorCount
)

// VerifC09_IntegrityCheck: a consistent population (2 emps referencing /
// linked to 2 depts, symbolic names, roles, references and links) is reported
// clean; with one (quick) corruption of any class injected below the API,
// check mode reports it and changes nothing, fix mode repairs it so that a
// re-check is clean and the indexes mirror the entities again.
func verifC09(corrupt bool) { verifC09P(corrupt, true, false) }

// symPop: names, roles, references and links of the population are symbolic
// (else one fixed population); pair: a second corruption is injected next to
// the first one (a ghost entry of any of the four families, with a key adjacent
// to the first ghost's key where the families coincide)
func verifC09P(corrupt, symPop, pair bool) {
	cfg := vStoreCfg{nickNullable: true, fk: vFkIndexNullable, fkToDept: true, links: true}
	env := verifNewEnv(cfg)
	defer env.close()
	env.createDepts(vDeptIds...)
	sp := &vSpecFk{deptIds: vDeptIds, dept: []bool{true, true}, emp: make([]bool, 2), boss: []int{-1, -1}, nullable: true}
	names := make([]string, 2)
	nicks := make([]*string, 2)
	roles := make([][2]bool, 2)
	links := &vLinkSpec{dept: [2]bool{true, true}}
	for e := 0; e < 2; e++ {
		sp.emp[e] = true
		links.emp[e] = true
		if symPop {
			names[e] = verifrt.String("name", 1)
			if e == 1 {
				verifrt.Assume(names[0] != names[1])
			}
		} else {
			names[e] = "N" + vIds[e]
		}
		// emp a is fixed (role r1, references x); emp b varies
		if e == 0 {
			roles[e] = [2]bool{true, false}
			sp.boss[e] = 0
		} else if symPop {
			roles[e] = [2]bool{true, verifrt.Bool("r2")}
			sp.boss[e] = verifrt.Choose("boss", 3) - 1
		} else {
			roles[e] = [2]bool{true, true}
			sp.boss[e] = 1
		}
		if e == 1 && !corrupt {
			nicks[e] = verifSymOptString("nick", 1) // nullable unique field: nil, "" or a value
		}
		ent := &vEmp{Id: vIds[e], Name: names[e], Nick: nicks[e], Boss: sp.bossPtr(e)}
		for r, in := range roles[e] {
			if in {
				ent.Roles = append(ent.Roles, vRoleNames[r])
			}
		}
		err := env.update(func(ctx MutateContext) error { return env.emp.Create(ctx, ent) })
		verifrt.Assert(err == nil, "C09 population setup succeeds")
		for d := 0; d < 2; d++ {
			linked := e == 0 && d == 0
			if e == 1 && d == 1 {
				linked = !symPop || verifrt.Bool("link")
			}
			if linked {
				links.link[e][d] = true
				err := env.update(func(ctx MutateContext) error { return env.emp.depts.AddLinks(ctx.Tx(), vIds[e], vDeptIds[d]) })
				verifrt.Assert(err == nil, "C09 link setup succeeds")
			}
		}
	}
	c03 := &vSpec{}
	for e := 0; e < 2; e++ {
		c03.slots[e] = vSlot{present: true, name: names[e], nick: nicks[e], roles: roles[e]}
	}
	checkMirrors := func(label string) {
		env.checkStateC03(c03, label)
		env.checkStateFk(sp, cfg, label)
		env.checkLinks(links, label)
	}

	// healthy: nothing reported, nothing changed, in either mode
	var before []vDumpEntry
	env.view(func(tx *bbolt.Tx) { before = verifDump(tx) })
	fixMode := verifrt.Bool("fix")
	s, err := env.checkIntegrity(fixMode)
	verifrt.Assert(err == nil && s.total == 0, "C09 a consistent database is reported clean")
	env.view(func(tx *bbolt.Tx) {
		verifrt.Assert(verifDumpEqual(before, verifDump(tx)), "C09 checking a consistent database changes nothing")
	})

	if !corrupt {
		return
	}
	// inject one corruption below the API
	cor := 1 + verifrt.Choose("corruption", vCorCount-1)
	e := verifrt.Choose("cor.emp", 2)
	d := verifrt.Choose("cor.dept", 2)
	r := verifrt.Choose("cor.role", 2)
	ghost := "ghost"
	typed := func(s string) []byte { return PrependFieldType(TypeString, []byte(s)) }
	applicable := true
	genuineConflict := false
	err = env.db.Update(nil, func(ctx MutateContext) error {
		tx := ctx.Tx()
		nameIdx := Path(tx, vRootPath, IndexesBucket, vEmpType, vFName)
		rolesIdx := Path(tx, vRootPath, IndexesBucket, vEmpType, vFRoles)
		eb := env.emp.GetEntityBucket(tx, []byte(vIds[e]))
		db := env.dept.GetEntityBucket(tx, []byte(vDeptIds[d]))
		switch cor {
		case vCorUniqueMissing:
			return nameIdx.Delete([]byte(names[e]))
		case vCorUniqueExtraForMissingEntity:
			return nameIdx.Put([]byte("zz"), []byte(ghost))
		case vCorUniqueWrongTarget:
			// a stale entry: a value nobody holds, pointing at an existing entity
			return nameIdx.Put([]byte("zz"), []byte(vIds[e]))
		case vCorSetMissingMember:
			if !roles[e][r] {
				applicable = false
				return nil
			}
			return rolesIdx.GetBucket(vRoleNames[r]).Delete(typed(vIds[e]))
		case vCorSetExtraMember:
			if roles[e][r] {
				applicable = false
				return nil
			}
			return rolesIdx.GetOrCreateBucket(vRoleNames[r]).Put(typed(vIds[e]), nil)
		case vCorSetMemberOfMissingEntity:
			return rolesIdx.GetOrCreateBucket(vRoleNames[r]).Put(typed(ghost), nil)
		case vCorSetEmptyKey:
			_, err := rolesIdx.CreateBucketIfNotExists([]byte("unheld"))
			return err
		case vCorFkMissingBackref:
			if sp.boss[e] != d {
				applicable = false
				return nil
			}
			return db.GetBucket(vFEmps).Delete(typed(vIds[e]))
		case vCorFkExtraBackref:
			if sp.boss[e] == d {
				applicable = false
				return nil
			}
			return db.GetOrCreateBucket(vFEmps).Put(typed(vIds[e]), nil)
		case vCorFkBackrefOfMissingEntity:
			return db.GetOrCreateBucket(vFEmps).Put(typed(ghost), nil)
		case vCorFkDangling:
			// the reference names an entity that does not exist (nullable: repairable by clearing)
			if sp.boss[e] >= 0 {
				// remove the healthy back-reference first so that only the dangling value is wrong
				if err := env.dept.GetEntityBucket(tx, []byte(vDeptIds[sp.boss[e]])).GetBucket(vFEmps).Delete(typed(vIds[e])); err != nil {
					return err
				}
			}
			eb.SetString(vFBoss, ghost, nil)
			sp.boss[e] = -1 // what the repaired state looks like
			return eb.GetError()
		case vCorLinkOneSidedForward:
			if links.link[e][d] {
				applicable = false
				return nil
			}
			// emp side has the link, dept side does not
			return eb.GetOrCreateBucket(vFDepts).Put(typed(vDeptIds[d]), nil)
		case vCorLinkOneSidedBackward:
			if links.link[e][d] {
				applicable = false
				return nil
			}
			return db.GetOrCreateBucket(vFMembers).Put(typed(vIds[e]), nil)
		case vCorLinkDangling:
			return eb.GetOrCreateBucket(vFDepts).Put(typed(ghost), nil)
		case vCorFkBackrefBucketMissing:
			// the target has no back-reference bucket at all although it is referenced
			if sp.boss[e] != d {
				applicable = false
				return nil
			}
			return db.DeleteBucket([]byte(vFEmps))
		case vCorNullableUniqueStale:
			// a stale entry of the nullable unique index pointing at an entity
			// whose field is null (nulls are never indexed)
			nickIdx := Path(tx, vRootPath, IndexesBucket, vEmpType, vFNick)
			return nickIdx.Put([]byte("zz"), []byte(vIds[e]))
		case vCorSetStrayValueKey:
			// an extra key in the set index that is not even a bucket
			return rolesIdx.Put([]byte("stray"), []byte("v"))
		}
		return nil
	})
	second := 0
	if pair {
		second = verifrt.Choose("second", 5)
	}
	if err == nil && second > 0 {
		// a further ghost entry; "ghosu" / "zy" sort directly next to "ghost" / "zz"
		err = env.db.Update(nil, func(ctx MutateContext) error {
			tx := ctx.Tx()
			ghost2 := "ghosu"
			switch second {
			case 1:
				return Path(tx, vRootPath, IndexesBucket, vEmpType, vFName).Put([]byte("zy"), []byte(ghost2))
			case 2:
				return Path(tx, vRootPath, IndexesBucket, vEmpType, vFRoles).GetOrCreateBucket(vRoleNames[r]).Put(typed(ghost2), nil)
			case 3:
				return env.dept.GetEntityBucket(tx, []byte(vDeptIds[d])).GetOrCreateBucket(vFEmps).Put(typed(ghost2), nil)
			case 4:
				return env.emp.GetEntityBucket(tx, []byte(vIds[e])).GetOrCreateBucket(vFDepts).Put(typed(ghost2), nil)
			}
			return nil
		})
	}
	nInjected := 1
	if second > 0 {
		nInjected = 2
	}
	verifrt.Assert(err == nil, "C09 corruption injected")
	if !applicable {
		verifrt.Outside("corruption class not applicable to this population")
	}
	_ = genuineConflict
	// one-sided links are repaired by completing them
	if cor == vCorLinkOneSidedForward || cor == vCorLinkOneSidedBackward {
		links.link[e][d] = true
	}

	env.view(func(tx *bbolt.Tx) { before = verifDump(tx) })
	if !fixMode {
		s, err = env.checkIntegrity(false)
		verifrt.Assert(err == nil, "C09 check mode runs")
		verifrt.Assert(s.total >= nInjected, "C09 check mode reports every injected inconsistency")
		verifrt.Assert(s.fixed == 0, "C09 check mode reports nothing as fixed")
		env.view(func(tx *bbolt.Tx) {
			verifrt.Assert(verifDumpEqual(before, verifDump(tx)), "C09 check mode leaves the database unchanged")
		})
		return
	}
	s, err = env.checkIntegrityW(true, pair && verifrt.Bool("write.first"))
	verifrt.Assert(err == nil, "C09 fix mode runs")
	verifrt.Assert(s.total >= nInjected, "C09 fix mode reports every injected inconsistency")
	s2, err := env.checkIntegrity(false)
	verifrt.Assert(err == nil && s2.total == 0, "C09 a re-check immediately after one fix run is clean")
	checkMirrors("C09 after fix")
}

// a consistent database (incl. a nullable unique field holding nil, "" or a
// value) is reported clean and left unchanged, in check and in fix mode
func VerifC09_ConsistentIsClean() { verifC09(false) }

// one corruption of any class: reported; check mode changes nothing; one fix
// run converges
func VerifC09_IntegrityCheck() { verifC09(true) }

// two corruptions at once on a fixed population: every class next to a ghost
// entry of each family (same family: adjacent keys, so a repair that deletes
// under its own cursor must not skip the neighbour)
func VerifC09_TwoCorruptions() { verifC09P(true, false, true) }

// VerifC09_FkConstraintDangling: the fk is wired as a nullable fk *constraint*
// (no back-reference set) or a nullable fk index, its symbol named like the
// field it is stored under or differently (AddFkSymbolWithKey). One or both emps reference an entity that does not
// exist (ids adjacent): check mode reports each and changes nothing; a fix run
// clears the dangling references, after which a re-check is clean and the
// references that were fine are untouched.
func VerifC09_FkConstraintDangling() {
	// fk constraint or nullable fk index; the symbol named like its storage key or not
	cfg := vStoreCfg{nickNullable: true, fk: []int{vFkConstraintRestrict, vFkIndexNullable}[verifrt.Choose("wiring", 2)], fkToDept: true, fkKeyed: verifrt.Bool("keyed")}
	env := verifNewEnv(cfg)
	defer env.close()
	env.createDepts(vDeptIds...)
	x := vDeptIds[0]
	for e := 0; e < 2; e++ {
		ent := &vEmp{Id: vIds[e], Name: "N" + vIds[e], Boss: &x}
		err := env.update(func(ctx MutateContext) error { return env.emp.Create(ctx, ent) })
		verifrt.Assert(err == nil, "C09 population setup succeeds")
	}
	s, err := env.checkIntegrity(verifrt.Bool("fix.clean"))
	verifrt.Assert(err == nil && s.total == 0, "C09 a consistent database is reported clean (fk constraint wiring)")
	dangling := [2]bool{verifrt.Bool("dangling.a"), verifrt.Bool("dangling.ab")}
	n := 0
	err = env.db.Update(nil, func(ctx MutateContext) error {
		for e := 0; e < 2; e++ {
			if dangling[e] {
				n++
				eb := env.emp.GetEntityBucket(ctx.Tx(), []byte(vIds[e]))
				eb.SetString(vFBoss, []string{"ghost", "ghosu"}[e], nil)
				if eb.GetError() != nil {
					return eb.GetError()
				}
			}
		}
		return nil
	})
	verifrt.Assert(err == nil, "C09 corruption injected")
	var before []vDumpEntry
	env.view(func(tx *bbolt.Tx) { before = verifDump(tx) })
	if !verifrt.Bool("fix") {
		s, err = env.checkIntegrity(false)
		verifrt.Assert(err == nil && s.total >= n && s.fixed == 0, "C09 check mode reports every dangling reference and marks nothing fixed")
		env.view(func(tx *bbolt.Tx) {
			verifrt.Assert(verifDumpEqual(before, verifDump(tx)), "C09 check mode leaves the database unchanged")
		})
		return
	}
	s, err = env.checkIntegrityW(true, verifrt.Bool("write.first"))
	verifrt.Assert(err == nil && s.total >= n, "C09 fix mode reports every dangling reference")
	s2, err := env.checkIntegrity(false)
	verifrt.Assert(err == nil && s2.total == 0, "C09 a re-check after one fix run is clean (fk constraint wiring)")
	env.view(func(tx *bbolt.Tx) {
		for e := 0; e < 2; e++ {
			ent, found, ferr := env.emp.FindById(tx, vIds[e])
			ok := ferr == nil && found
			if ok && dangling[e] {
				ok = ent.Boss == nil
			} else if ok {
				ok = ent.Boss != nil && *ent.Boss == x
			}
			verifrt.Assert(ok, "C09 a dangling nullable reference is cleared, a valid one is left alone")
		}
	})
}
