//go:build verif

package boltz

import (
	"context"

	"go.etcd.io/bbolt"

	"github.com/openziti/storage/ast"
	"github.com/openziti/storage/verifrt"
)

const vSysType = "vsys"

type vSysEnt struct {
	BaseExtEntity
	Name  string
	Owner *string // optional reference to a dept (only wired in the cascade harness)
}

func (e *vSysEnt) GetEntityType() string { return vSysType }

type vSysStrategy struct{}

func (vSysStrategy) NewEntity() *vSysEnt { return new(vSysEnt) }
func (vSysStrategy) FillEntity(e *vSysEnt, b *TypedBucket) {
	e.LoadBaseValues(b)
	e.Name = b.GetStringOrError(vFName)
	e.Owner = b.GetString("owner")
}
func (vSysStrategy) PersistEntity(e *vSysEnt, ctx *PersistContext) {
	e.SetBaseValues(ctx)
	ctx.SetString(vFName, e.Name)
	ctx.SetStringP("owner", e.Owner)
}

type vSysStore struct {
	*BaseStore[*vSysEnt]
}

type vSysEnv struct {
	raw   *bbolt.DB
	db    *DbImpl
	store *vSysStore
}

func verifNewSysEnv() *vSysEnv { return verifNewSysEnvOwned(nil, 0) }

// with a dept store given, vsys.owner references it with a cascading delete
// (wiring 0: fk constraint, 1: fk index)
func verifNewSysEnvOwned(dept *vDeptStore, wiring int) *vSysEnv {
	def := StoreDefinition[*vSysEnt]{
		EntityType:      vSysType,
		EntityStrategy:  vSysStrategy{},
		BasePath:        []string{vRootPath},
		EntityNotFoundF: func(id string) error { return NewNotFoundError(vSysType, "id", id) },
	}
	s := &vSysStore{BaseStore: NewBaseStore(def)}
	s.InitImpl(s)
	s.AddExtEntitySymbols()
	s.AddUniqueIndex(s.AddSymbol(vFName, ast.NodeTypeString))
	s.AddConstraint(NewSystemEntityEnforcementConstraint(s))
	if dept != nil {
		owner := s.AddFkSymbol("owner", dept)
		if wiring == 0 {
			s.AddFkConstraint(owner, true, CascadeDelete)
		} else {
			s.AddFkIndexCascadeDelete(owner, dept.AddFkSetSymbol("gadgets", s))
		}
	}
	raw := verifrt.OpenDB()
	env := &vSysEnv{raw: raw, db: &DbImpl{rootBucket: vRootPath, db: raw}, store: s}
	err := env.db.Update(nil, func(ctx MutateContext) error {
		h := &vErrHolder{}
		s.InitializeIndexes(ctx.Tx(), h)
		if dept != nil {
			dept.InitializeIndexes(ctx.Tx(), h)
		}
		return h.err
	})
	verifrt.Assert(err == nil, "C16 store initialisation succeeds")
	return env
}

// one operation of a transaction body
type vSysOp struct {
	kind    int  // 0 create, 1 update, 2 delete
	patch   bool // update restricted by a field checker naming the name field
	slot    int  // entity slot
	sysCtx  bool // issued through the system context
	flag    bool // IsSystem field of the entity passed in
	migrate bool // Migrate field of the entity passed in
}

func verifSymSysOp(nSlots int) vSysOp {
	return vSysOp{
		kind:    verifrt.Choose("kind", 3),
		slot:    verifrt.Choose("slot", nSlots),
		sysCtx:  verifrt.Bool("sysctx"),
		flag:    verifrt.Bool("flag"),
		migrate: verifrt.Bool("migrate"),
		patch:   verifrt.Bool("patch"),
	}
}

// VerifC16_SystemEntities: from an arbitrary population (each slot absent,
// ordinary or system - system entities are created through a system context),
// a transaction of 2 (quick) / 3 (thorough) operations, each through an
// ordinary or a system context, each trying any value of the system flag: an
// operation is allowed iff the stored entity (or, for create, the new entity)
// is not a system entity or the context is a system context; refused
// operations change nothing; the stored flag never changes after creation.
func VerifC16_SystemEntities() {
	nSlots := 2
	nOps := 2
	if verifrt.Tier() == 1 {
		nOps = 3
	}
	env := verifNewSysEnv()
	defer env.raw.Close()
	present := make([]bool, nSlots)
	system := make([]bool, nSlots)
	gen := make([]int, nSlots) // distinguishes names across updates
	for i := 0; i < nSlots; i++ {
		present[i] = verifrt.Choose("present", 2) == 1
		if !present[i] {
			continue
		}
		system[i] = verifrt.Bool("system")
		err := env.db.Update(NewMutateContext(context.Background()), func(ctx MutateContext) error {
			c := ctx
			if system[i] {
				c = ctx.GetSystemContext()
			}
			return env.store.Create(c, &vSysEnt{BaseExtEntity: BaseExtEntity{Id: vIds[i], IsSystem: system[i]}, Name: "n0" + vIds[i]})
		})
		verifrt.Assert(err == nil, "C16 creating an ordinary entity, or a system entity from a system context, succeeds")
	}
	ops := make([]vSysOp, nOps)
	for k := range ops {
		ops[k] = verifSymSysOp(nSlots)
	}
	// the transaction is started with an ordinary context (system contexts are
	// derived per operation) or with a system context handed to Db.Update itself,
	// which then applies to every operation
	outerSys := verifrt.Bool("outer.sysctx")
	if outerSys {
		for k := range ops {
			ops[k].sysCtx = true
		}
	}
	// reference model of the transaction: stops at the first refused operation
	np, ns, ng := append([]bool{}, present...), append([]bool{}, system...), append([]int{}, gen...)
	accept := true
	for k, op := range ops {
		_ = k
		switch op.kind {
		case 0:
			if np[op.slot] || (op.flag && !op.sysCtx) {
				accept = false
			} else {
				np[op.slot], ns[op.slot] = true, op.flag
				ng[op.slot]++
			}
		case 1:
			if !np[op.slot] || (ns[op.slot] && !op.sysCtx) {
				accept = false
			} else {
				ng[op.slot]++
			}
		case 2:
			if !np[op.slot] || (ns[op.slot] && !op.sysCtx) {
				accept = false
			} else {
				np[op.slot], ns[op.slot] = false, false
			}
		}
		if !accept {
			break
		}
	}
	g2 := append([]int{}, gen...)
	var outer MutateContext = NewMutateContext(context.Background())
	if outerSys {
		outer = outer.GetSystemContext()
	}
	run := env.db.Update
	if verifrt.Bool("batch") {
		run = env.db.Batch
	}
	err := run(outer, func(ctx MutateContext) error {
		for _, op := range ops {
			c := ctx
			if op.sysCtx && !outerSys {
				c = ctx.GetSystemContext()
			}
			var err error
			if op.kind != 2 {
				g2[op.slot]++
			}
			ent := &vSysEnt{BaseExtEntity: BaseExtEntity{Id: vIds[op.slot], IsSystem: op.flag, Migrate: op.migrate}, Name: "n" + string(rune('0'+g2[op.slot])) + vIds[op.slot]}
			switch op.kind {
			case 0:
				err = env.store.Create(c, ent)
			case 1:
				var checker FieldChecker
				if op.patch {
					checker = MapFieldChecker{vFName: struct{}{}}
				}
				err = env.store.Update(c, ent, checker)
			case 2:
				err = env.store.DeleteById(c, vIds[op.slot])
			}
			if err != nil {
				return err
			}
		}
		return nil
	})
	verifrt.Assert((err == nil) == accept, "C16 transaction accepted iff every operation on a system entity came through a system context")
	wp, ws, wg := present, system, gen
	if err == nil {
		wp, ws, wg = np, ns, ng
	}
	_ = env.db.View(func(tx *bbolt.Tx) error {
		for i := 0; i < nSlots; i++ {
			e, found, ferr := env.store.FindById(tx, vIds[i])
			verifrt.Assert(ferr == nil && found == wp[i], "C16 entity present iff the model says so (refused work changes nothing)")
			if found && wp[i] {
				verifrt.Assert(e.IsSystem == ws[i], "C16 the system flag is the one given at creation")
				verifrt.Assert(e.Name == "n"+string(rune('0'+wg[i]))+vIds[i], "C16 stored name is that of the last accepted write")
			}
		}
		return nil
	})
}

// VerifC16_CascadeReachesSystemEntity: system (or ordinary) entities reference
// an ordinary dept with a cascading delete. Deleting the dept deletes its
// referrers on the caller's behalf - so from an ordinary context it is refused
// when a system entity is among them, and then nothing changes.
func VerifC16_CascadeReachesSystemEntity() {
	dept := verifNewDeptStore()
	wiring := verifrt.Choose("wiring", 2)
	env := verifNewSysEnvOwned(dept, wiring)
	defer env.raw.Close()
	err := env.db.Update(NewMutateContext(context.Background()), func(ctx MutateContext) error {
		return dept.Create(ctx, &vDept{Id: "x", Label: "L"})
	})
	verifrt.Assert(err == nil, "C16 dept setup succeeds")
	system := make([]bool, 2)
	refs := make([]bool, 2)
	for i := 0; i < 2; i++ {
		system[i] = verifrt.Bool("system")
		refs[i] = verifrt.Bool("references.x")
		if wiring == 1 {
			verifrt.Assume(refs[i]) // the cascading fk index is not nullable
		}
		var owner *string
		if refs[i] {
			x := "x"
			owner = &x
		}
		err := env.db.Update(NewMutateContext(context.Background()), func(ctx MutateContext) error {
			c := ctx
			if system[i] {
				c = ctx.GetSystemContext()
			}
			return env.store.Create(c, &vSysEnt{BaseExtEntity: BaseExtEntity{Id: vIds[i], IsSystem: system[i]}, Name: "n" + vIds[i], Owner: owner})
		})
		verifrt.Assert(err == nil, "C16 gadget setup succeeds")
	}
	var before []vDumpEntry
	_ = env.db.View(func(tx *bbolt.Tx) error { before = verifDump(tx); return nil })
	sysCtx := verifrt.Bool("sysctx")
	err = env.db.Update(NewMutateContext(context.Background()), func(ctx MutateContext) error {
		c := ctx
		if sysCtx {
			c = ctx.GetSystemContext()
		}
		return dept.DeleteById(c, "x")
	})
	reachesSystem := (system[0] && refs[0]) || (system[1] && refs[1])
	verifrt.Assert((err != nil) == (reachesSystem && !sysCtx), "C16 a cascading delete that reaches a system entity is accepted only from a system context")
	_ = env.db.View(func(tx *bbolt.Tx) error {
		if err != nil {
			verifrt.Assert(verifDumpEqual(before, verifDump(tx)), "C16 a refused cascading delete changes nothing")
			return nil
		}
		for i := 0; i < 2; i++ {
			_, found, ferr := env.store.FindById(tx, vIds[i])
			verifrt.Assert(ferr == nil && found == !refs[i], "C16 an accepted cascading delete removes exactly the referrers")
		}
		return nil
	})
}

func init() {
	verifQueryFamilies = append(verifQueryFamilies, func() []string { return []string{`owner = "x"`} })
}

// ---- a child store layered on the system-entity store ----

type vSysKid struct {
	vSysEnt
	Note string
}

type vSysKidStrategy struct{ parent *vSysStore }

func (s *vSysKidStrategy) NewEntity() *vSysKid { return new(vSysKid) }
func (s *vSysKidStrategy) FillEntity(e *vSysKid, b *TypedBucket) {
	_, err := s.parent.LoadEntity(b.Tx(), e.Id, &e.vSysEnt)
	b.SetError(err)
	e.Note = b.GetStringWithDefault("note", "")
}
func (s *vSysKidStrategy) PersistEntity(e *vSysKid, ctx *PersistContext) {
	s.parent.GetEntityStrategy().PersistEntity(&e.vSysEnt, ctx.GetParentContext())
	ctx.SetString("note", e.Note)
}

type vSysKidStore struct {
	*BaseStore[*vSysKid]
}

func verifNewSysKidStore(parent *vSysStore) *vSysKidStore {
	def := StoreDefinition[*vSysKid]{
		EntityStrategy:  &vSysKidStrategy{parent: parent},
		EntityNotFoundF: func(id string) error { return NewNotFoundError(vSysType, "id", id) },
		BasePath:        []string{"kid"},
		Parent:          parent,
		ParentMapper: func(e Entity) Entity {
			if k, ok := e.(*vSysKid); ok {
				return &k.vSysEnt
			}
			return e
		},
	}
	s := &vSysKidStore{BaseStore: NewBaseStore(def)}
	s.InitImpl(s)
	parent.GrantSymbols(s)
	parent.RegisterChildStoreStrategy(&ChildStoreUpdateHandler[*vSysEnt, *vSysKid]{
		Store: s,
		Mapper: func(ctx MutateContext, p *vSysEnt) (*vSysKid, bool) {
			if !s.IsEntityPresent(ctx.Tx(), p.Id) {
				return nil, false
			}
			k, found, _ := s.FindById(ctx.Tx(), p.Id)
			if !found {
				return nil, false
			}
			k.vSysEnt = *p
			return k, true
		},
	})
	return s
}

// VerifC16_ChildStoreSystemEntities: the constraint sits on the parent store;
// entities created through a child store are protected all the same. One
// entity (system or not, with child data), then an update or delete through
// either store from an ordinary or a system context (updates with or without a
// field checker): allowed iff the entity is not a system entity or the
// context is a system context; a refused operation changes nothing.
func VerifC16_ChildStoreSystemEntities() {
	env := verifNewSysEnv()
	defer env.raw.Close()
	kids := verifNewSysKidStore(env.store)
	system := verifrt.Bool("system")
	err := env.db.Update(NewMutateContext(context.Background()), func(ctx MutateContext) error {
		c := ctx
		if system {
			c = ctx.GetSystemContext()
		}
		return kids.Create(c, &vSysKid{vSysEnt: vSysEnt{BaseExtEntity: BaseExtEntity{Id: "a", IsSystem: system}, Name: "n0"}, Note: "k0"})
	})
	verifrt.Assert(err == nil, "C16 creating through the child store (system entities from a system context) succeeds")
	// an ordinary context may not create a system entity through the child store either
	err = env.db.Update(NewMutateContext(context.Background()), func(ctx MutateContext) error {
		return kids.Create(ctx, &vSysKid{vSysEnt: vSysEnt{BaseExtEntity: BaseExtEntity{Id: "ab", IsSystem: true}, Name: "n9"}, Note: "k9"})
	})
	verifrt.Assert(err != nil, "C16 creating a system entity through the child store from an ordinary context is refused")
	var before []vDumpEntry
	_ = env.db.View(func(tx *bbolt.Tx) error { before = verifDump(tx); return nil })
	op := verifrt.Choose("op", 2) // 0 update, 1 delete
	viaChild := verifrt.Bool("viachild")
	sysCtx := verifrt.Bool("sysctx")
	patch := verifrt.Bool("patch")
	err = env.db.Update(NewMutateContext(context.Background()), func(ctx MutateContext) error {
		c := ctx
		if sysCtx {
			c = ctx.GetSystemContext()
		}
		ent := &vSysEnt{BaseExtEntity: BaseExtEntity{Id: "a", IsSystem: system}, Name: "n1"}
		if op == 1 {
			if viaChild {
				return kids.DeleteById(c, "a")
			}
			return env.store.DeleteById(c, "a")
		}
		var checker FieldChecker
		if patch {
			checker = MapFieldChecker{vFName: struct{}{}, "note": struct{}{}}
		}
		if viaChild {
			return kids.Update(c, &vSysKid{vSysEnt: *ent, Note: "k1"}, checker)
		}
		return env.store.Update(c, ent, checker)
	})
	allowed := !system || sysCtx
	verifrt.Assert((err == nil) == allowed, "C16 a child-store entity is changed iff it is not a system entity or the context is a system context")
	_ = env.db.View(func(tx *bbolt.Tx) error {
		if !allowed {
			verifrt.Assert(verifDumpEqual(before, verifDump(tx)), "C16 a refused change of a child-store system entity changes nothing")
			return nil
		}
		e, found, ferr := env.store.FindById(tx, "a")
		if op == 1 {
			verifrt.Assert(ferr == nil && !found && kids.GetEntityBucket(tx, []byte("a")) == nil, "C16 an allowed delete removes both parts")
		} else {
			verifrt.Assert(ferr == nil && found && e.Name == "n1" && e.IsSystem == system, "C16 an allowed update is stored and keeps the flag")
		}
		return nil
	})
}

// VerifC06_CascadeRetriedOnSameContext: a cascading delete that is refused half
// way (a system entity among the referrers, ordinary context) is tried again
// on the SAME mutate context, now as a system context: the second attempt
// cascades completely - nothing the first attempt recorded in the context
// survives its failure - and no trace of the deleted id remains.
func VerifC06_CascadeRetriedOnSameContext() {
	dept := verifNewDeptStore()
	wiring := verifrt.Choose("wiring", 2)
	env := verifNewSysEnvOwned(dept, wiring)
	defer env.raw.Close()
	const victim = "victim-dept"
	err := env.db.Update(NewMutateContext(context.Background()), func(ctx MutateContext) error {
		return dept.Create(ctx, &vDept{Id: victim, Label: "L"})
	})
	verifrt.Assert(err == nil, "C06 dept setup succeeds")
	owner := victim
	// gadgets: an ordinary one (sorted first) and a system one, both referencing the dept
	for i, sys := range []bool{false, true} {
		err := env.db.Update(NewMutateContext(context.Background()), func(ctx MutateContext) error {
			c := ctx
			if sys {
				c = ctx.GetSystemContext()
			}
			return env.store.Create(c, &vSysEnt{BaseExtEntity: BaseExtEntity{Id: vIds[i], IsSystem: sys}, Name: "n" + vIds[i], Owner: &owner})
		})
		verifrt.Assert(err == nil, "C06 gadget setup succeeds")
	}
	ctx := NewMutateContext(context.Background())
	err = env.db.Update(ctx, func(c MutateContext) error { return dept.DeleteById(c, victim) })
	verifrt.Assert(err != nil, "C06 the cascading delete is refused from an ordinary context (system entity among the referrers)")
	err = env.db.Update(ctx, func(c MutateContext) error { return dept.DeleteById(c.GetSystemContext(), victim) })
	verifrt.Assert(err == nil, "C06 the same delete retried on the same context as a system context succeeds")
	_ = env.db.View(func(tx *bbolt.Tx) error {
		verifrt.Assert(!verifScanForId(tx, victim), "C06 after the retried cascading delete the id occurs nowhere (every referrer went with it)")
		for i := 0; i < 2; i++ {
			_, found, _ := env.store.FindById(tx, vIds[i])
			verifrt.Assert(!found, "C06 the retried cascade removes every referrer")
		}
		return nil
	})
}

func init() {
	verifQueryFamilies = append(verifQueryFamilies, func() []string { return []string{`owner = "victim-dept"`} })
}
