//go:build verif

package boltz

import (
	"bytes"

	"go.etcd.io/bbolt"

	"github.com/openziti/storage/ast"
	"github.com/openziti/storage/verifrt"
)

// child ("extension") store layered on vemps
type vMgr struct {
	vEmp
	Lead bool
}

type vMgrStrategy struct {
	parent *vEmpStore
}

func (s *vMgrStrategy) NewEntity() *vMgr { return new(vMgr) }
func (s *vMgrStrategy) FillEntity(e *vMgr, b *TypedBucket) {
	_, err := s.parent.LoadEntity(b.Tx(), e.Id, &e.vEmp)
	b.SetError(err)
	e.Lead = b.GetBoolWithDefault("lead", false)
}
func (s *vMgrStrategy) PersistEntity(e *vMgr, ctx *PersistContext) {
	s.parent.GetEntityStrategy().PersistEntity(&e.vEmp, ctx.GetParentContext())
	ctx.SetBool("lead", e.Lead)
}

type vMgrStore struct {
	*BaseStore[*vMgr]
}

func verifNewMgrStore(parent *vEmpStore, extended bool) *vMgrStore {
	def := StoreDefinition[*vMgr]{
		EntityStrategy:  &vMgrStrategy{parent: parent},
		EntityNotFoundF: func(id string) error { return NewNotFoundError(parent.GetSingularEntityType(), "id", id) },
		BasePath:        []string{"ext"},
		Parent:          parent,
		ParentMapper: func(e Entity) Entity {
			if m, ok := e.(*vMgr); ok {
				return &m.vEmp
			}
			return e
		},
	}
	s := &vMgrStore{BaseStore: NewBaseStore(def)}
	if extended {
		s.BaseStore.Extended()
	}
	s.InitImpl(s)
	parent.GrantSymbols(s)
	s.AddSymbol("lead", ast.NodeTypeBool)
	// the update handler contract: map an update that arrives at the parent
	// store onto the child entity, carrying the caller's shared field values
	parent.RegisterChildStoreStrategy(&ChildStoreUpdateHandler[*vEmp, *vMgr]{
		Store: s,
		Mapper: func(ctx MutateContext, p *vEmp) (*vMgr, bool) {
			if !s.IsEntityPresent(ctx.Tx(), p.Id) {
				return nil, false
			}
			m, found, _ := s.FindById(ctx.Tx(), p.Id)
			if !found {
				return nil, false
			}
			m.vEmp = *p
			return m, true
		},
	})
	return s
}

type vPCSlot struct {
	kind int // 0 absent, 1 plain parent entity, 2 parent + child data
	name string
	lead bool
}

func verifC15(extended bool) {
	nSlots := 2
	cfg := vStoreCfg{nickNullable: true, links: true}
	env := verifNewEnv(cfg)
	defer env.close()
	mgr := verifNewMgrStore(env.emp, extended)
	env.createDepts("x")
	// every entity holds role r1 (parent set index) and is linked to dept x
	// (parent link collection): both must follow child entities like plain ones
	mkEmp := func(id, name string) *vEmp { return &vEmp{Id: id, Name: name, Roles: []string{"r1"}} }
	mkMgr := func(id, name string, lead bool) *vMgr {
		return &vMgr{vEmp: vEmp{Id: id, Name: name, Roles: []string{"r1"}}, Lead: lead}
	}
	linkX := func(ctx MutateContext, id string) error { return env.emp.depts.AddLinks(ctx.Tx(), id, "x") }

	slots := make([]vPCSlot, nSlots)
	for i := range slots {
		slots[i].kind = verifrt.Choose("kind", 3)
		if slots[i].kind == 0 {
			continue
		}
		slots[i].name = verifrt.String("name", 1)
		for j := 0; j < i; j++ {
			if slots[j].kind != 0 {
				verifrt.Assume(slots[j].name != slots[i].name)
			}
		}
		if slots[i].kind == 2 {
			slots[i].lead = verifrt.Bool("lead")
		}
		s := slots[i]
		err := env.update(func(ctx MutateContext) error {
			var err error
			if s.kind == 1 {
				err = env.emp.Create(ctx, mkEmp(vIds[i], s.name))
			} else {
				err = mgr.Create(ctx, mkMgr(vIds[i], s.name, s.lead))
			}
			if err != nil {
				return err
			}
			return linkX(ctx, vIds[i])
		})
		verifrt.Assert(err == nil, "C15 creating a valid entity through either store succeeds")
	}

	check := func(sl []vPCSlot, label string) {
		env.view(func(tx *bbolt.Tx) {
			var wantChildIds, wantAllIds []string
			nPresent := 0
			for i, s := range sl {
				pe, pfound, err := env.emp.FindById(tx, vIds[i])
				verifrt.Assert(err == nil && pfound == (s.kind != 0), label+": parent part present iff the entity exists")
				if pfound && s.kind != 0 {
					verifrt.Assert(pe.Name == s.name, label+": shared field as last written through either store")
				}
				childData := mgr.GetEntityBucket(tx, []byte(vIds[i])) != nil
				verifrt.Assert(childData == (s.kind == 2), label+": child data present iff created through the child store and not deleted")
				me, mfound, err := mgr.FindById(tx, vIds[i])
				wantFound := s.kind == 2 || (extended && s.kind == 1)
				verifrt.Assert(err == nil && mfound == wantFound, label+": child store lookup finds only entities with child data (all parent entities when extended)")
				if mfound && s.kind == 2 {
					verifrt.Assert(verifrt.And(me.Name == s.name, me.Lead == s.lead), label+": child entity carries shared and child fields")
				}
				if s.kind != 0 {
					nPresent++
					wantAllIds = append(wantAllIds, vIds[i])
					if wantFound {
						wantChildIds = append(wantChildIds, vIds[i])
					}
					// parent unique index covers child entities identically
					idx := Path(tx, vRootPath, IndexesBucket, vEmpType, vFName)
					verifrt.Assert(idx != nil && bytes.Equal(idx.Get([]byte(s.name)), []byte(vIds[i])), label+": parent unique index maps the name to the entity")
				}
			}
			idx := Path(tx, vRootPath, IndexesBucket, vEmpType, vFName)
			verifrt.Assert(idx != nil && verifCountKeys(idx.Bucket) == nPresent, label+": parent unique index has no stale entries")
			// parent set index and parent link collection: exactly the present entities
			r1 := Path(tx, vRootPath, IndexesBucket, vEmpType, vFRoles, "r1")
			members := env.dept.GetEntityBucket(tx, []byte("x")).GetBucket(vFMembers)
			nR1, nMembers := 0, 0
			if r1 != nil {
				nR1 = verifCountKeys(r1.Bucket)
			}
			if members != nil {
				nMembers = verifCountKeys(members.Bucket)
			}
			verifrt.Assert(nR1 == nPresent, label+": parent set index lists exactly the present entities (child entities included)")
			verifrt.Assert(nMembers == nPresent, label+": the other side of the parent's link collection lists exactly the present entities")
			for i, s := range sl {
				if s.kind != 0 {
					verifrt.Assert(r1 != nil && r1.Get(PrependFieldType(TypeString, []byte(vIds[i]))) != nil, label+": parent set index lists the entity")
					verifrt.Assert(members != nil && members.Get(PrependFieldType(TypeString, []byte(vIds[i]))) != nil, label+": dept x lists the entity as a member")
				}
			}
			ids, count, err := mgr.QueryIds(tx, "true")
			verifrt.Assert(err == nil && verifSameStrings(ids, wantChildIds) && count == int64(len(wantChildIds)), label+": child store query returns exactly the entities with child data (all when extended)")
			var it []string
			for c := mgr.IterateValidIds(tx, ast.BoolNodeTrue); c.IsValid(); c.Next() {
				it = append(it, string(c.Current()))
			}
			// IterateValidIds: for an extended store only entities that really have child data
			var wantValid []string
			for i, s := range sl {
				if s.kind == 2 {
					wantValid = append(wantValid, vIds[i])
				}
			}
			verifrt.Assert(verifSameStrings(it, wantValid), label+": IterateValidIds yields exactly the entities with child data")
			var itAll []string
			for c := env.emp.IterateIds(tx, ast.BoolNodeTrue); c.IsValid(); c.Next() {
				itAll = append(itAll, string(c.Current()))
			}
			verifrt.Assert(verifSameStrings(itAll, wantAllIds), label+": IterateIds through the parent store yields every entity")
			// a sorted query through the child store (sorting scanner): first of the
			// child entities by name, count = number of child entities
			sids, scount, err := mgr.QueryIds(tx, "true sort by name limit 1")
			verifrt.Assert(err == nil && scount == int64(len(wantChildIds)), label+": sorted child-store query counts exactly the child entities")
			if len(wantChildIds) == 0 {
				verifrt.Assert(len(sids) == 0, label+": sorted child-store query is empty without child entities")
			} else {
				okFirst := len(sids) == 1
				if okFirst {
					for i, s := range sl {
						isChild := s.kind == 2 || (extended && s.kind == 1)
						if !isChild {
							okFirst = okFirst && sids[0] != vIds[i]
							continue
						}
						for k, o := range sl {
							oChild := o.kind == 2 || (extended && o.kind == 1)
							if k != i && oChild {
								// the returned entity has the smallest name
								okFirst = verifrt.And(okFirst, verifrt.Or(sids[0] != vIds[i], s.name < o.name))
							}
						}
					}
				}
				verifrt.Assert(okFirst, label+": sorted child-store query pages over child entities only")
			}
			pids, pcount, err := env.emp.QueryIds(tx, "true")
			verifrt.Assert(err == nil && verifSameStrings(pids, wantAllIds) && pcount == int64(len(wantAllIds)), label+": parent store query returns every entity")
		})
	}
	check(slots, "C15 after build")

	next := append([]vPCSlot{}, slots...)
	j := verifrt.Choose("slot", nSlots)
	op := verifrt.Choose("op", 10)
	var err error
	accept := true
	nameTaken := func(name string) bool {
		t := false
		for i, s := range slots {
			if i != j && s.kind != 0 {
				t = verifrt.Or(t, s.name == name)
			}
		}
		return t
	}
	switch op {
	case 0, 1: // create through parent / child
		name := verifrt.StringUpTo("newname", 1)
		lead := verifrt.Bool("newlead")
		if slots[j].kind != 0 {
			if op == 1 && slots[j].kind == 1 {
				verifrt.Outside("create through the child store of an id that exists as a plain parent entity (not constrained)")
			}
			accept = false
		} else if len(name) == 0 || nameTaken(name) {
			accept = false // the parent's non-nullable unique index applies to both stores
		} else if op == 0 {
			next[j] = vPCSlot{kind: 1, name: name}
		} else {
			next[j] = vPCSlot{kind: 2, name: name, lead: lead}
		}
		err = env.update(func(ctx MutateContext) error {
			var err error
			if op == 0 {
				err = env.emp.Create(ctx, mkEmp(vIds[j], name))
			} else {
				err = mgr.Create(ctx, mkMgr(vIds[j], name, lead))
			}
			if err != nil {
				return err
			}
			return linkX(ctx, vIds[j])
		})
	case 2, 3: // update through parent / child
		name := verifrt.StringUpTo("newname", 1)
		lead := verifrt.Bool("newlead")
		switch {
		case slots[j].kind == 0:
			accept = false
		case op == 3 && slots[j].kind == 1:
			accept = false // no child data: not an entity of the child store
		case len(name) == 0 || nameTaken(name):
			accept = false
		default:
			next[j].name = name
			if op == 3 {
				next[j].lead = lead
			}
		}
		err = env.update(func(ctx MutateContext) error {
			if op == 2 {
				return env.emp.Update(ctx, mkEmp(vIds[j], name), nil)
			}
			return mgr.Update(ctx, mkMgr(vIds[j], name, lead), nil)
		})
	case 6: // patch through the child store naming only the child field: shared fields stay
		name := verifrt.StringUpTo("newname", 1)
		lead := verifrt.Bool("newlead")
		if slots[j].kind != 2 {
			accept = false
		} else {
			next[j].lead = lead
		}
		err = env.update(func(ctx MutateContext) error {
			return mgr.Update(ctx, mkMgr(vIds[j], name, lead), MapFieldChecker{"lead": struct{}{}})
		})
	case 7: // patch through the parent store naming only the shared name field: the child field stays
		name := verifrt.StringUpTo("newname", 1)
		switch {
		case slots[j].kind == 0:
			accept = false
		case len(name) == 0 || nameTaken(name):
			accept = false
		default:
			next[j].name = name
		}
		err = env.update(func(ctx MutateContext) error {
			return env.emp.Update(ctx, &vEmp{Id: vIds[j], Name: name}, MapFieldChecker{vFName: struct{}{}})
		})
	case 8, 9: // DeleteWhere through parent (8) / child (9) with a filter on the shared field
		for i, s := range slots {
			if s.kind == 0 || !(s.name >= "a") {
				continue
			}
			if op == 9 && s.kind == 1 {
				if extended {
					verifrt.Outside("DeleteWhere through an extended child store matching an entity without child data (not constrained)")
				}
				continue // a plain child store does not see plain parent entities
			}
			next[i] = vPCSlot{}
		}
		err = env.update(func(ctx MutateContext) error {
			if op == 8 {
				return env.emp.DeleteWhere(ctx, `name >= "a"`)
			}
			return mgr.DeleteWhere(ctx, `name >= "a"`)
		})
	case 4, 5: // delete through parent / child
		if slots[j].kind == 0 {
			accept = false
		} else {
			if op == 5 && slots[j].kind == 1 {
				verifrt.Outside("delete through the child store of an entity without child data (not constrained)")
			}
			next[j] = vPCSlot{}
		}
		err = env.update(func(ctx MutateContext) error {
			if op == 4 {
				return env.emp.DeleteById(ctx, vIds[j])
			}
			return mgr.DeleteById(ctx, vIds[j])
		})
	}
	verifrt.Assert((err == nil) == accept, "C15 operation accepted iff the reference model accepts it (parent constraints apply to child entities)")
	if err != nil {
		check(slots, "C15 after a rejected operation (unchanged)")
		return
	}
	check(next, "C15 after the operation")
}

func verifSameStrings(a, b []string) bool {
	if len(a) != len(b) {
		return false
	}
	for i := range a {
		if a[i] != b[i] {
			return false
		}
	}
	return true
}

func VerifC15_PlainChildStore()    { verifC15(false) }
func VerifC15_ExtendedChildStore() { verifC15(true) }

func init() {
	verifQueryFamilies = append(verifQueryFamilies, func() []string { return []string{"true", "true sort by name limit 1", `name >= "a"`} })
}
