//go:build verif

package boltz

import (
	"time"

	"github.com/openziti/storage/ast"
	"github.com/openziti/storage/verifrt"
)

// "vrows": a store whose entities carry one field of every scalar type (each
// nullable), used by the query harnesses (C01, C02).
const (
	vRowType = "vrows"
)

type vRow struct {
	Id string
	S  *string
	I  *int64
	F  *float64
	B  *bool
	M  bool // match bit
	T  *time.Time
}

func (e *vRow) GetId() string         { return e.Id }
func (e *vRow) SetId(id string)       { e.Id = id }
func (e *vRow) GetEntityType() string { return vRowType }

type vRowStrategy struct{}

func (vRowStrategy) NewEntity() *vRow { return new(vRow) }
func (vRowStrategy) FillEntity(e *vRow, b *TypedBucket) {
	e.S = b.GetString("s")
	e.I = b.GetInt64("i")
	e.F = b.GetFloat64("f")
	e.B = b.GetBool("b")
	e.M = b.GetBoolWithDefault("m", false)
	e.T = b.GetTime("t")
}
func (vRowStrategy) PersistEntity(e *vRow, ctx *PersistContext) {
	ctx.SetStringP("s", e.S)
	if e.I != nil {
		ctx.SetInt64("i", *e.I)
	}
	if e.F != nil {
		ctx.Bucket.SetFloat64("f", *e.F, ctx.FieldChecker)
	}
	if e.B != nil {
		ctx.SetBool("b", *e.B)
	}
	ctx.SetBool("m", e.M)
	if e.T != nil {
		ctx.SetTimeP("t", e.T)
	}
}

type vRowStore struct {
	*BaseStore[*vRow]
}

func verifNewRowStore() *vRowStore {
	def := StoreDefinition[*vRow]{
		EntityType:      vRowType,
		EntityStrategy:  vRowStrategy{},
		EntityNotFoundF: func(id string) error { return NewNotFoundError(vRowType, "id", id) },
		BasePath:        []string{vRootPath},
	}
	s := &vRowStore{BaseStore: NewBaseStore(def)}
	s.InitImpl(s)
	s.AddIdSymbol("id", ast.NodeTypeString)
	s.AddSymbol("s", ast.NodeTypeString)
	s.AddSymbol("i", ast.NodeTypeInt64)
	s.AddSymbol("f", ast.NodeTypeFloat64)
	s.AddSymbol("b", ast.NodeTypeBool)
	s.AddSymbol("m", ast.NodeTypeBool)
	s.AddSymbol("t", ast.NodeTypeDatetime)
	return s
}

type vRowEnv struct {
	*vEnv
	rows *vRowStore
}

func verifNewRowEnv() *vRowEnv {
	env := verifNewEnv(vStoreCfg{nickNullable: true})
	return &vRowEnv{vEnv: env, rows: verifNewRowStore()}
}

// symbolic optional scalars
func verifOptInt64(tag string) *int64 {
	if verifrt.Choose(tag+".nil", 2) == 0 {
		return nil
	}
	v := verifrt.Int64(tag)
	return &v
}

func verifOptFloat64(tag string) *float64 {
	if verifrt.Choose(tag+".nil", 2) == 0 {
		return nil
	}
	v := verifrt.Float64(tag)
	return &v
}

func verifOptBool(tag string) *bool {
	if verifrt.Choose(tag+".nil", 2) == 0 {
		return nil
	}
	v := verifrt.Bool(tag)
	return &v
}
