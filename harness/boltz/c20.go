//go:build verif

package boltz

import (
	"errors"

	"github.com/openziti/storage/ast"
	"github.com/openziti/storage/verifrt"
)

// a store exposing every kind of symbol; no data is needed for C20
const vQType = "vq"

type vQEnt struct {
	Id string
}

func (e *vQEnt) GetId() string         { return e.Id }
func (e *vQEnt) SetId(id string)       { e.Id = id }
func (e *vQEnt) GetEntityType() string { return vQType }

type vQStrategy struct{}

func (vQStrategy) NewEntity() *vQEnt                     { return new(vQEnt) }
func (vQStrategy) FillEntity(*vQEnt, *TypedBucket)       {}
func (vQStrategy) PersistEntity(*vQEnt, *PersistContext) {}

type vQStore struct {
	*BaseStore[*vQEnt]
}

func verifNewQStore() *vQStore {
	def := StoreDefinition[*vQEnt]{
		EntityType:      vQType,
		EntityStrategy:  vQStrategy{},
		EntityNotFoundF: func(id string) error { return NewNotFoundError(vQType, "id", id) },
		BasePath:        []string{vRootPath},
	}
	s := &vQStore{BaseStore: NewBaseStore(def)}
	s.InitImpl(s)
	s.AddIdSymbol("id", ast.NodeTypeString)
	s.AddSymbol("s", ast.NodeTypeString)
	s.AddSymbol("i", ast.NodeTypeInt64)
	s.AddSymbol("f", ast.NodeTypeFloat64)
	s.AddSymbol("b", ast.NodeTypeBool)
	s.AddSymbol("t", ast.NodeTypeDatetime)
	s.AddMapSymbol("tags", ast.NodeTypeAnyType, "tags")
	s.AddSetSymbol("roles", ast.NodeTypeString)
	s.AddSetSymbol("nums", ast.NodeTypeInt64)
	s.AddPublicSetSymbol("pubset", ast.NodeTypeString)
	s.AddFkSymbol("boss", s)
	s.AddFkSetSymbol("reports", s)
	return s
}

type vPubProg struct {
	text string
	syms []string // every symbol the query references (map elements by their full name)
}

const vDT1 = "datetime(2020-01-02T03:04:05Z)"
const vDT2 = "datetime(2021-01-02T03:04:05Z)"

var vPubProgs = []vPubProg{
	{`s = "x"`, []string{"s"}},
	{`s != "x"`, []string{"s"}},
	{`s < "x"`, []string{"s"}},
	{`s >= "x"`, []string{"s"}},
	{`s contains "x"`, []string{"s"}},
	{`s not icontains "x"`, []string{"s"}},
	{`s in ["a", "b"]`, []string{"s"}},
	{`s not in ["a"]`, []string{"s"}},
	{`s = null`, []string{"s"}},
	{`s != null`, []string{"s"}},
	{`i = 1`, []string{"i"}},
	{`i > 1.5`, []string{"i"}},
	{`i in [1, 2]`, []string{"i"}},
	{`i in [1.5, 2]`, []string{"i"}},
	{`i between 1 and 3`, []string{"i"}},
	{`i not between 1.5 and 3`, []string{"i"}},
	{`i contains 1`, []string{"i"}},
	{`i = null`, []string{"i"}},
	{`f <= 1.5`, []string{"f"}},
	{`f between 1 and 2`, []string{"f"}},
	{`f in [1.5]`, []string{"f"}},
	{`f = 1`, []string{"f"}},
	{`b = true`, []string{"b"}},
	{`b != false`, []string{"b"}},
	{`b`, []string{"b"}},
	{`not (b)`, []string{"b"}},
	{`t = ` + vDT1, []string{"t"}},
	{`t > ` + vDT1, []string{"t"}},
	{`t between ` + vDT1 + ` and ` + vDT2, []string{"t"}},
	{`t in [` + vDT1 + `, ` + vDT2 + `]`, []string{"t"}},
	{`tags.x = "v"`, []string{"tags.x"}},
	{`tags.x = 1`, []string{"tags.x"}},
	{`tags.x != null`, []string{"tags.x"}},
	{`tags.x contains "v"`, []string{"tags.x"}},
	{`tags.x in ["v"]`, []string{"tags.x"}},
	{`tags.x between 1 and 2`, []string{"tags.x"}},
	{`tags.x = true`, []string{"tags.x"}},
	{`tags.a.b = "v"`, []string{"tags.a.b"}},
	{`tags.a.b.c != null and s = "x"`, []string{"tags.a.b.c", "s"}},
	{`true sort by tags.a.b`, []string{"tags.a.b"}},
	{`anyOf(roles) = "a"`, []string{"roles"}},
	{`anyOf(pubset) = "a" and count(pubset) > 0`, []string{"pubset"}},
	{`allOf(roles) != "a"`, []string{"roles"}},
	{`anyOf(roles) in ["a", "b"]`, []string{"roles"}},
	{`anyOf(roles) contains "a"`, []string{"roles"}},
	{`count(roles) > 1`, []string{"roles"}},
	{`count(roles) > 1.5`, []string{"roles"}},
	{`count(roles) between 1 and 3`, []string{"roles"}},
	{`isEmpty(roles)`, []string{"roles"}},
	{`not isEmpty(roles)`, []string{"roles"}},
	{`anyOf(nums) > 1`, []string{"nums"}},
	{`anyOf(nums) > 1.5`, []string{"nums"}},
	{`allOf(nums) between 1 and 5`, []string{"nums"}},
	{`anyOf(nums) in [1.5, 2.5]`, []string{"nums"}},
	{`boss = "x"`, []string{"boss"}},
	{`boss.s = "x"`, []string{"boss.s"}},
	{`boss.i > 1.5`, []string{"boss.i"}},
	{`boss = "x" and boss.s = "y"`, []string{"boss", "boss.s"}},
	{`boss.s = "y" or boss = "x" sort by boss.i`, []string{"boss.s", "boss", "boss.i"}},
	{`tags.x = 1 and tags.y = 2`, []string{"tags.x"}},
	{`anyOf(reports) = "x"`, []string{"reports"}},
	{`anyOf(reports.s) = "x"`, []string{"reports.s"}},
	{`isEmpty(from reports where s = "x")`, []string{"reports", "s"}},
	{`count(from reports where i > 1 and b = true) = 1`, []string{"reports", "i", "b"}},
	{`s = "x" and i = 1`, []string{"s", "i"}},
	{`s = "x" or (i = 1 and not (b = true))`, []string{"s", "i", "b"}},
	{`f > 1 and (tags.x = "v" or anyOf(roles) = "a")`, []string{"f", "tags.x", "roles"}},
	{`true sort by s`, []string{"s"}},
	{`b = true sort by i desc, s skip 1 limit 2`, []string{"b", "i", "s"}},
	{`true sort by tags.x`, []string{"tags.x"}},
	{`true limit none`, nil},
}

func init() {
	verifQueryFamilies = append(verifQueryFamilies, func() []string {
		var qs []string
		for _, p := range vPubProgs {
			qs = append(qs, p.text)
		}
		return qs
	})
}

// VerifC20_PublicSymbolValidation: for every program of the family and every
// public / non-public assignment to the symbols it references, validation
// accepts iff all of them are public (a map element exactly when its map is),
// and a rejection names a referenced non-public symbol.
func VerifC20_PublicSymbolValidation() {
	p := vPubProgs[verifrt.Choose("program", len(vPubProgs))]
	store := verifNewQStore()
	// a set symbol added as public is public from the start and listed as such
	listed := false
	for _, name := range store.GetPublicSymbols() {
		listed = listed || name == "pubset"
	}
	verifrt.Assert(store.IsPublicSymbol("pubset") && listed, "C20 a symbol added with AddPublicSetSymbol is public and listed by GetPublicSymbols")
	// start from "nothing public", then publish per symbolic bit
	for k := range store.publicSymbols {
		delete(store.publicSymbols, k)
	}
	pub := make([]bool, len(p.syms))
	allPublic := true
	for i, name := range p.syms {
		pub[i] = verifrt.Bool("public." + name)
		allPublic = verifrt.And(allPublic, pub[i])
		// the first segment of a dotted (linked) symbol being public says nothing
		// about the dotted symbol itself - only map elements inherit
		firstIsOwnSymbol := false
		if dot := verifIndexByte(name, '.'); dot > 0 {
			for _, other := range p.syms {
				firstIsOwnSymbol = firstIsOwnSymbol || other == name[:dot]
			}
		}
		if dot := verifIndexByte(name, '.'); dot > 0 && name[:dot] != "tags" && !firstIsOwnSymbol {
			if verifrt.Bool("public.firstsegment." + name) {
				store.MakeSymbolPublic(name[:dot])
			}
		}
		if pub[i] {
			base := name
			if len(name) > 5 && name[:5] == "tags." {
				base = "tags" // an element of a map symbol is public exactly when the map is
			}
			store.MakeSymbolPublic(base)
			verifrt.Assert(store.IsPublicSymbol(name), "C20 a symbol made public is public: "+name)
		}
	}
	q, err := ast.Parse(store, p.text)
	verifrt.Assert(err == nil, "C20 family member parses and types: "+p.text)
	// validations do not influence each other: one that references nothing first
	q0, err := ast.Parse(store, "true limit none")
	verifrt.Assert(err == nil && ValidateSymbolsArePublic(q0, store) == nil, "C20 a query referencing no symbol is accepted")
	verr := ValidateSymbolsArePublic(q, store)
	verifrt.Assert((verr == nil) == allPublic, "C20 accepted iff every referenced symbol is public: "+p.text)
	if verr != nil {
		var use ast.UnknownSymbolError
		isUnknown := errors.As(verr, &use)
		verifrt.Assert(isUnknown, "C20 rejection is an unknown-symbol error: "+p.text)
		if isUnknown {
			named := false
			for i, name := range p.syms {
				if !pub[i] && use.Symbol == name {
					named = true
				}
			}
			verifrt.Assert(named, "C20 rejection names a referenced non-public symbol: "+p.text)
		}
		// the verdict is a function of the query and the current visibility: after
		// a rejection, publishing the missing symbols makes the same query pass,
		// and an unrelated acceptable query passes too
		verifrt.Assert(ValidateSymbolsArePublic(q0, store) == nil, "C20 a rejection does not leak into the next validation")
		for _, name := range p.syms {
			base := name
			if len(name) > 5 && name[:5] == "tags." {
				base = "tags"
			}
			store.MakeSymbolPublic(base)
		}
		verifrt.Assert(ValidateSymbolsArePublic(q, store) == nil, "C20 accepted once every referenced symbol has been made public: "+p.text)
	}
}

func verifIndexByte(s string, c byte) int {
	for i := 0; i < len(s); i++ {
		if s[i] == c {
			return i
		}
	}
	return -1
}
