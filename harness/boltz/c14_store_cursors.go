//go:build verif

package boltz

import (
	"errors"

	"go.etcd.io/bbolt"

	"github.com/openziti/storage/ast"
	"github.com/openziti/storage/verifrt"
)

// C14 for the cursors the store layer hands out. The underlying sets are made
// of entity ids / role values with arbitrary bytes; each kind is driven with
// the same symbolic Next / Seek script and checked against the ordered-set
// semantics (verifrt.CursorScript).

func verifC14StoreBounds() (n, steps int) {
	if verifrt.Tier() == 1 {
		return 2, 3
	}
	return 2, 2
}

func verifIdsToStrings(ids [][]byte) []string {
	out := make([]string, len(ids))
	for i, b := range ids {
		out[i] = string(b)
	}
	return out
}

// population: n emps with symbolic ids; each holds role "r" or not and a
// second role with an arbitrary one-byte value; each is linked to dept "x" or not
type vC14Pop struct {
	ids     [][]byte
	hasR    []bool
	role2   [][]byte // nil or one byte
	linkedX []bool
}

func verifC14Populate(env *vEnv, n int, symR, symRole2, symLink, fixedR bool) *vC14Pop {
	p := &vC14Pop{}
	p.ids = verifrt.SortedSet("id", n, 1, 2)
	env.createDepts("x")
	for i, id := range p.ids {
		// only the dimensions the cursor kind under test depends on are symbolic
		if fixedR {
			p.hasR = append(p.hasR, i == 0) // exactly the first emp holds "r"
		} else {
			p.hasR = append(p.hasR, symR && verifrt.Bool("role.r"))
		}
		var r2 []byte
		if symRole2 && verifrt.Bool("role2.set") {
			r2 = verifrt.Bytes("role2", 1)
			verifrt.Assume(string(r2) != "r")
		}
		p.role2 = append(p.role2, r2)
		p.linkedX = append(p.linkedX, symLink && verifrt.Bool("link.x"))
		e := &vEmp{Id: string(id), Name: "N" + string(rune('0'+i))}
		if p.hasR[i] {
			e.Roles = append(e.Roles, "r")
		}
		if r2 != nil {
			e.Roles = append(e.Roles, string(r2))
		}
		linked := p.linkedX[i]
		err := env.update(func(ctx MutateContext) error {
			if err := env.emp.Create(ctx, e); err != nil {
				return err
			}
			if linked {
				return env.emp.depts.AddLinks(ctx.Tx(), e.Id, "x")
			}
			return nil
		})
		verifrt.Assert(err == nil, "C14 population setup succeeds")
	}
	return p
}

func (p *vC14Pop) idsWhere(f func(i int) bool) [][]byte {
	var out [][]byte
	for i, id := range p.ids {
		if f(i) {
			out = append(out, id)
		}
	}
	return out
}

func verifC14Store(kind int) {
	n, steps := verifC14StoreBounds()
	env := verifNewEnv(vStoreCfg{nickNullable: true, links: true})
	defer env.close()
	symR := kind == 0 || kind == 4 || kind == 5 || kind == 7 || kind == 8
	symRole2 := kind == 1 || kind == 4 || kind == 5 || kind == 7 || kind == 8
	symLink := kind == 2 || kind == 3 || kind == 9 || kind == 10 || kind == 11
	if kind == 7 || kind == 8 {
		n = 1
	}
	// the key cursor sees each role value once however many hold it: "r" is held
	// by the first emp only, the second values are arbitrary
	p := verifC14Populate(env, n, symR, symRole2, symLink, kind == 1)
	if kind == 11 {
		// the same membership as "has child data": the flagged emps become managers
		env.kidStore = verifNewMgrStore(env.emp, false)
		err := env.update(func(ctx MutateContext) error {
			for i, id := range p.ids {
				if !p.linkedX[i] {
					continue
				}
				e, found, err := env.emp.FindById(ctx.Tx(), string(id))
				if err != nil || !found {
					return errors.New("verif: emp not found")
				}
				if err := env.emp.DeleteById(ctx, string(id)); err != nil {
					return err
				}
				if err := env.kidStore.Create(ctx, &vMgr{vEmp: *e, Lead: true}); err != nil {
					return err
				}
			}
			return nil
		})
		verifrt.Assert(err == nil, "C14 child data setup succeeds")
	}
	if kind == 10 {
		// the same membership as ref-counted links (count 1 or 2)
		err := env.update(func(ctx MutateContext) error {
			for i, id := range p.ids {
				if !p.linkedX[i] {
					continue
				}
				for k := 0; k <= i%2; k++ {
					if _, err := env.emp.rcDepts.IncrementLinkCount(ctx.Tx(), id, []byte("x")); err != nil {
						return err
					}
				}
			}
			return nil
		})
		verifrt.Assert(err == nil, "C14 ref-counted link setup succeeds")
	}
	forward := verifrt.Bool("forward")
	env.view(func(tx *bbolt.Tx) {
		switch kind {
		case 0: // set index value cursor: the holders of role "r"
			want := p.idsWhere(func(i int) bool { return p.hasR[i] })
			c := env.emp.idxRoles.OpenValueCursor(tx, []byte("r"), forward)
			verifrt.CursorScript(want, c, forward, steps, 2, "C14 set-index value cursor")
		case 1: // set index key cursor: the role values held by anyone
			var want [][]byte
			anyR := false
			for i := range p.ids {
				anyR = anyR || p.hasR[i]
			}
			if anyR {
				want = append(want, []byte("r"))
			}
			for i := range p.ids {
				if p.role2[i] != nil {
					want = append(want, p.role2[i]) // duplicates allowed in the reference set
				}
			}
			c := env.emp.idxRoles.OpenKeyCursor(tx, forward)
			verifrt.CursorScript(want, c, forward, steps, 1, "C14 set-index key cursor")
		case 2: // link collection cursor from the dept side: the linked emps
			want := p.idsWhere(func(i int) bool { return p.linkedX[i] })
			c := env.dept.members.IterateLinks(tx, []byte("x"))
			verifrt.CursorScript(want, c, true, steps, 2, "C14 link collection cursor")
		case 3: // related-entities cursor
			want := p.idsWhere(func(i int) bool { return p.linkedX[i] })
			c := env.dept.GetRelatedEntitiesCursor(tx, "x", vFMembers, forward)
			verifrt.CursorScript(want, c, forward, steps, 2, "C14 related-entities cursor")
		case 4: // ids matching all of {r, role2 of the first emp}
			if len(p.ids) == 0 || p.role2[0] == nil {
				verifrt.Outside("needs a second role value")
			}
			v := string(p.role2[0])
			want := p.idsWhere(func(i int) bool { return p.hasR[i] && p.role2[i] != nil })
			// holders of both values: role2 equal to v (symbolic) - keep as a guarded set
			var wantAll [][]byte
			for i, id := range p.ids {
				if p.hasR[i] && p.role2[i] != nil {
					if string(p.role2[i]) == v {
						wantAll = append(wantAll, id)
					}
				}
			}
			_ = want
			c := env.emp.IteratorMatchingAllOf(env.emp.idxRoles, []string{"r", v})(tx, forward)
			verifrt.Drain(wantAll, c, forward, len(p.ids), "C14 matching-all-of cursor")
		case 5: // ids matching any of {r, role2 of the first emp}
			if len(p.ids) == 0 || p.role2[0] == nil {
				verifrt.Outside("needs a second role value")
			}
			v := string(p.role2[0])
			var wantAny [][]byte
			for i, id := range p.ids {
				if p.hasR[i] {
					wantAny = append(wantAny, id)
				} else if p.role2[i] != nil && string(p.role2[i]) == v {
					wantAny = append(wantAny, id)
				}
			}
			c := env.emp.IteratorMatchingAnyOf(env.emp.idxRoles, []string{"r", v})(tx, forward)
			verifrt.Drain(wantAny, c, forward, len(p.ids), "C14 matching-any-of cursor")
		case 6: // filtered id iteration with seek
			want := p.ids
			c := env.emp.IterateIds(tx, ast.BoolNodeTrue)
			verifrt.CursorScript(want, c, true, steps, 2, "C14 id iteration cursor")
		case 7: // typed bucket cursors over the emp's own role list (first emp)
			if len(p.ids) == 0 {
				verifrt.Outside("needs an entity")
			}
			var want [][]byte
			if p.hasR[0] {
				want = append(want, []byte("r"))
			}
			if p.role2[0] != nil {
				want = append(want, p.role2[0])
			}
			lb := env.emp.GetEntityBucket(tx, p.ids[0]).GetBucket(vFRoles)
			if lb == nil {
				verifrt.Outside("no role bucket")
			}
			c := lb.IterateStringListInDirection(forward)
			verifrt.CursorScript(want, c, forward, steps, 1, "C14 typed bucket string-list cursor")
		case 11: // valid-ids cursor of a (non-extended) child store: only the ids that have child data
			want := p.idsWhere(func(i int) bool { return p.linkedX[i] })
			c := env.kidStore.IterateValidIds(tx, ast.BoolNodeTrue)
			verifrt.CursorScript(want, c, true, steps, 2, "C14 child store valid-ids cursor")
		case 10: // ref-counted link collection cursor from the dept side
			want := p.idsWhere(func(i int) bool { return p.linkedX[i] })
			c := env.dept.rcMembers.IterateLinks(tx, []byte("x"), forward)
			verifrt.CursorScript(want, c, forward, steps, 2, "C14 ref-counted link collection cursor")
		case 9: // one runtime symbol re-opened row after row (what a scan does), each time left standing on its first element
			rt := env.emp.symDepts.GetRuntimeSymbol()
			for i := range p.ids {
				var want [][]byte
				if p.linkedX[i] {
					want = [][]byte{[]byte("x")}
				}
				c := rt.OpenCursor(tx, p.ids[i])
				verifrt.CheckPosition(want, verifrt.Bound{}, c, true, "C14 set-symbol runtime cursor re-opened on the next row")
			}
		case 8: // the set symbol's runtime cursor (what filter evaluation iterates), with SeekToString
			if len(p.ids) == 0 {
				verifrt.Outside("needs an entity")
			}
			var want [][]byte
			if p.hasR[0] {
				want = append(want, []byte("r"))
			}
			if p.role2[0] != nil {
				want = append(want, p.role2[0])
			}
			rt := env.emp.symRoles.GetRuntimeSymbol()
			c := rt.OpenCursor(tx, p.ids[0])
			verifrt.CheckPosition(want, verifrt.Bound{}, c, true, "C14 set-symbol runtime cursor initial")
			if ts, ok := c.(ast.TypeSeekableSetCursor); ok {
				v := verifrt.Bytes("seek", verifrt.Choose("seek.len", 2))
				ts.SeekToString(string(v))
				verifrt.CheckPosition(want, verifrt.Bound{Has: true, V: v}, c, true, "C14 set-symbol runtime cursor SeekToString")
				if c.IsValid() {
					last := verifrt.CopyBytes(c.Current())
					c.Next()
					verifrt.CheckPosition(want, verifrt.Bound{Has: true, Strict: true, V: last}, c, true, "C14 set-symbol runtime cursor next")
				}
			}
		}
	})
}

func VerifC14_SetIndexValueCursor()      { verifC14Store(0) }
func VerifC14_SetIndexKeyCursor()        { verifC14Store(1) }
func VerifC14_LinkCollectionCursor()     { verifC14Store(2) }
func VerifC14_RelatedEntitiesCursor()    { verifC14Store(3) }
func VerifC14_MatchingAllOfCursor()      { verifC14Store(4) }
func VerifC14_MatchingAnyOfCursor()      { verifC14Store(5) }
func VerifC14_IdIterationCursor()        { verifC14Store(6) }
func VerifC14_StringListCursor()         { verifC14Store(7) }
func VerifC14_SetSymbolRuntimeCursor()   { verifC14Store(8) }
func VerifC14_SetSymbolReopenedCursor()  { verifC14Store(9) }
func VerifC14_RefCountedLinkCursor()     { verifC14Store(10) }
func VerifC14_ChildStoreValidIdsCursor() { verifC14Store(11) }
