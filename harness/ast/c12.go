//go:build verif

package ast

import (
	"strings"
	"time"

	"github.com/openziti/storage/verifrt"
)

// ---- boolean skeletons: trees over distinct bool symbols ----

type vSkel struct {
	op   int // 0 atom, 1 and, 2 or, 3 not
	atom int
	l, r *vSkel
}

var vAtomNames = []string{"a", "b", "c", "d", "e"}

// verifTrees enumerates all trees with exactly n connectives (and/or binary,
// not unary) whose leaves are numbered left to right starting at *next.
func verifTrees(n int, allowNot bool) []*vSkel {
	if n == 0 {
		return []*vSkel{{op: 0}}
	}
	var out []*vSkel
	for nl := 0; nl < n; nl++ {
		ls, rs := verifTrees(nl, allowNot), verifTrees(n-1-nl, allowNot)
		for _, l := range ls {
			for _, r := range rs {
				out = append(out, &vSkel{op: 1, l: l, r: r}, &vSkel{op: 2, l: l, r: r})
			}
		}
	}
	if allowNot {
		for _, c := range verifTrees(n-1, allowNot) {
			// nested negation included: not (not (P)) must mean P
			out = append(out, &vSkel{op: 3, l: c})
		}
	}
	return out
}

// number the leaves left to right (distinct atoms: equal atoms are the
// special case of assignments that give them equal values)
func (t *vSkel) number(next *int) *vSkel {
	switch t.op {
	case 0:
		c := &vSkel{op: 0, atom: *next}
		*next++
		return c
	case 3:
		return &vSkel{op: 3, l: t.l.number(next)}
	}
	l := t.l.number(next)
	r := t.r.number(next)
	return &vSkel{op: t.op, l: l, r: r}
}

const (
	vSpellPlain = iota
	vSpellFullParens
	vSpellUpper
	vSpellSpacey
	vSpellRedundantParens
)

// print with the minimal parentheses standard precedence needs (not > and >
// or; same-operator chains unparenthesised), or fully parenthesised.
// `not` is always written `not (P)`, and a not-expression that is the left
// operand of a connective is wrapped in parentheses (what `not (P) and Q`
// means is not fixed by the property statement).
func (t *vSkel) print(spell int, parent int, isLeft bool) string {
	and, or, not := " and ", " or ", "not "
	lp, rp := "(", ")"
	switch spell {
	case vSpellUpper:
		and, or, not = " AND ", " Or ", "NOT "
	case vSpellSpacey:
		and, or, not = "  and\t", " \tor  ", "not  "
		lp, rp = "( ", " )"
	}
	switch t.op {
	case 0:
		name := ""
		switch {
		case t.atom == -1:
			name = "true"
			if spell == vSpellUpper {
				name = "TRUE"
			}
		case t.atom == -2:
			name = "false"
			if spell == vSpellUpper {
				name = "False"
			}
		default:
			name = vAtomNames[t.atom]
		}
		if spell == vSpellRedundantParens {
			return "(" + name + ")"
		}
		return name
	case 3:
		s := not + lp + t.l.print(spell, 0, false) + rp
		// not binds tighter than and / or: `not (P) and Q` is (not (P)) and Q
		if spell == vSpellFullParens && parent != 0 {
			return lp + s + rp
		}
		return s
	}
	sep := and
	if t.op == 2 {
		sep = or
	}
	s := t.l.print(spell, t.op, true) + sep + t.r.print(spell, t.op, false)
	need := false
	switch {
	case parent == 0:
		need = spell == vSpellRedundantParens
	case spell == vSpellFullParens:
		need = true
	case parent == 1 && t.op == 2: // or under and
		need = true
	case parent == 3:
		need = false // already inside not ( )
	case parent == t.op && !isLeft:
		// a and (b and c): associative, printed without parentheses
		need = false
	}
	if need {
		return lp + s + rp
	}
	return s
}

func (t *vSkel) eval(v []bool) bool {
	switch t.op {
	case 0:
		if t.atom < 0 {
			return t.atom == -1
		}
		return v[t.atom]
	case 1:
		return verifrt.And(t.l.eval(v), t.r.eval(v))
	case 2:
		return verifrt.Or(t.l.eval(v), t.r.eval(v))
	}
	return verifrt.Not(t.l.eval(v))
}

type vProgram struct {
	text string
	tree *vSkel
}

// constVariants returns t plus, for small trees, the variants in which one
// leaf is replaced by the literal true or false.
func constVariants(t *vSkel, conn int) []*vSkel {
	out := []*vSkel{t}
	if conn == 0 || conn > 2 {
		return out
	}
	var leaves int
	countLeaves(t, &leaves)
	for k := 0; k < leaves; k++ {
		for _, c := range []int{-1, -2} {
			idx := 0
			out = append(out, replaceLeaf(t, k, c, &idx))
		}
	}
	return out
}

func countLeaves(t *vSkel, n *int) {
	if t.op == 0 {
		*n++
		return
	}
	countLeaves(t.l, n)
	if t.r != nil {
		countLeaves(t.r, n)
	}
}

func replaceLeaf(t *vSkel, k, c int, idx *int) *vSkel {
	if t.op == 0 {
		r := &vSkel{op: 0, atom: t.atom}
		if *idx == k {
			r.atom = c
		}
		*idx++
		return r
	}
	r := &vSkel{op: t.op}
	r.l = replaceLeaf(t.l, k, c, idx)
	if t.r != nil {
		r.r = replaceLeaf(t.r, k, c, idx)
	}
	return r
}

func verifC12FamilyN(maxConn int) []vProgram {
	seen := map[string]bool{}
	var out []vProgram
	for n := 0; n <= maxConn; n++ {
		for _, shape := range verifTrees(n, true) {
			k := 0
			numbered := shape.number(&k)
			if k > len(vAtomNames) {
				continue
			}
			for _, t := range constVariants(numbered, n) {
				for spell := vSpellPlain; spell <= vSpellRedundantParens; spell++ {
					if spell != vSpellPlain && spell != vSpellFullParens && n > 3 {
						continue
					}
					s := t.print(spell, 0, false)
					if !seen[s] {
						seen[s] = true
						out = append(out, vProgram{s, t})
					}
				}
			}
		}
	}
	return out
}

func verifC12Family() []vProgram {
	if verifrt.Tier() == 1 {
		return verifC12FamilyN(4)
	}
	return verifC12FamilyN(3)
}

func init() {
	verifQueryFamilies = append(verifQueryFamilies, func() []string {
		var qs []string
		// the thorough family is a superset of the quick one
		for _, p := range verifC12FamilyN(4) {
			qs = append(qs, p.text)
		}
		return qs
	})
}

// ---- stub symbols: bool symbols with a symbolic truth assignment ----

type vBoolSyms struct {
	vals []bool
}

func (s *vBoolSyms) idx(name string) int {
	for i, n := range vAtomNames {
		if n == name {
			return i
		}
	}
	return -1
}

func (s *vBoolSyms) GetSymbolType(name string) (NodeType, bool) {
	if s.idx(name) >= 0 {
		return NodeTypeBool, true
	}
	return 0, false
}
func (s *vBoolSyms) GetSetSymbolTypes(string) SymbolTypes { return nil }
func (s *vBoolSyms) IsSet(name string) (bool, bool)       { return false, s.idx(name) >= 0 }
func (s *vBoolSyms) EvalBool(name string) *bool {
	i := s.idx(name)
	if i < 0 {
		return nil
	}
	v := s.vals[i]
	return &v
}
func (s *vBoolSyms) EvalString(string) *string                     { return nil }
func (s *vBoolSyms) EvalInt64(string) *int64                       { return nil }
func (s *vBoolSyms) EvalFloat64(string) *float64                   { return nil }
func (s *vBoolSyms) EvalDatetime(string) *time.Time                { return nil }
func (s *vBoolSyms) IsNil(string) bool                             { return false }
func (s *vBoolSyms) OpenSetCursor(string) SetCursor                { return NewEmptyCursor() }
func (s *vBoolSyms) OpenSetCursorForQuery(string, Query) SetCursor { return NewEmptyCursor() }

// greedy: what a parser without precedence computes (right operand of every
// connective extends as far as possible). Used only to delimit the region of
// the known finding KF-C12-and-or-precedence.
func verifGreedyDiffers(text string, tree *vSkel) bool {
	toks := verifTokenize(text)
	pos := 0
	g := verifGreedyParse(toks, &pos)
	n := 0
	countAtoms(tree, &n)
	for m := 0; m < 1<<uint(n); m++ {
		v := make([]bool, len(vAtomNames))
		for i := 0; i < n; i++ {
			v[i] = m&(1<<uint(i)) != 0
		}
		if g.evalC(v) != tree.evalC(v) {
			return true
		}
	}
	return false
}

func countAtoms(t *vSkel, n *int) {
	if t.op == 0 {
		if t.atom+1 > *n {
			*n = t.atom + 1
		}
		return
	}
	countAtoms(t.l, n)
	if t.r != nil {
		countAtoms(t.r, n)
	}
}

func (t *vSkel) evalC(v []bool) bool {
	switch t.op {
	case 0:
		if t.atom < 0 {
			return t.atom == -1
		}
		return v[t.atom]
	case 1:
		return t.l.evalC(v) && t.r.evalC(v)
	case 2:
		return t.l.evalC(v) || t.r.evalC(v)
	}
	return !t.l.evalC(v)
}

func verifTokenize(s string) []string {
	s = strings.ToLower(s)
	s = strings.ReplaceAll(s, "(", " ( ")
	s = strings.ReplaceAll(s, ")", " ) ")
	return strings.Fields(s)
}

// expr := primary [ (and|or) expr ]   ;  primary := atom | ( expr ) | not expr
func verifGreedyParse(toks []string, pos *int) *vSkel {
	var left *vSkel
	switch toks[*pos] {
	case "(":
		*pos++
		left = verifGreedyParse(toks, pos)
		*pos++ // )
	case "not":
		*pos++
		return &vSkel{op: 3, l: verifGreedyParse(toks, pos)}
	default:
		switch toks[*pos] {
		case "true":
			left = &vSkel{op: 0, atom: -1}
		case "false":
			left = &vSkel{op: 0, atom: -2}
		}
		for i, n := range vAtomNames {
			if n == toks[*pos] {
				left = &vSkel{op: 0, atom: i}
			}
		}
		*pos++
	}
	if *pos < len(toks) && (toks[*pos] == "and" || toks[*pos] == "or") {
		op := 1
		if toks[*pos] == "or" {
			op = 2
		}
		*pos++
		return &vSkel{op: op, l: left, r: verifGreedyParse(toks, pos)}
	}
	return left
}

// VerifC12_BooleanGrouping: for every program of the family (parsed by the
// real parser, typed and evaluated by the real code) and every truth
// assignment (symbolic), the result equals the formula the query was printed
// from: parentheses group, chains are associative, `not (P)` negates, `and`
// binds tighter than `or`; case, whitespace and redundant parentheses do not
// matter (they are re-spellings of the same tree).
func VerifC12_BooleanGrouping() {
	fam := verifC12Family()
	p := fam[verifrt.Choose("program", len(fam))]
	syms := &vBoolSyms{vals: make([]bool, len(vAtomNames))}
	for i := range syms.vals {
		syms.vals[i] = verifrt.Bool("v")
	}
	q, err := Parse(syms, p.text)
	verifrt.Assert(err == nil, "C12 family member parses: "+p.text)
	got := q.EvalBool(syms)
	want := p.tree.eval(syms.vals)
	ok := got == want
	if verifrt.Known("KF-C12-and-or-precedence", verifGreedyDiffers(p.text, p.tree)) {
		// known finding: `X and Y or Z` is parsed as `X and (Y or Z)`. Still
		// require that nothing else is wrong in this region: the result must
		// equal the precedence-free (right-greedy) reading.
		verifrt.KnownCheck("KF-C12-and-or-precedence", ok)
		toks := verifTokenize(p.text)
		pos := 0
		g := verifGreedyParse(toks, &pos)
		verifrt.Assert(got == g.eval(syms.vals), "C12 (known-finding region) result equals the right-greedy reading: "+p.text)
		return
	}
	verifrt.Assert(ok, "C12 query evaluates as written: "+p.text)
}
