//go:build verif

package ast

import (
	"time"
)

// vSym / vSymTab: a stub implementation of ast.Symbols whose values are under
// the harness's control (symbolic or concrete).
type vSym struct {
	typ   NodeType
	isSet bool
	null  bool
	b     bool
	s     string
	i     int64
	f     float64
	t     time.Time
	set   [][]byte // set-valued symbols: elements (typed by typ)
}

type vSymTab struct {
	syms map[string]*vSym
}

func newSymTab() *vSymTab { return &vSymTab{syms: map[string]*vSym{}} }

func (st *vSymTab) GetSymbolType(name string) (NodeType, bool) {
	if s, ok := st.syms[name]; ok {
		return s.typ, true
	}
	return 0, false
}

func (st *vSymTab) GetSetSymbolTypes(name string) SymbolTypes { return st }

func (st *vSymTab) IsSet(name string) (bool, bool) {
	if s, ok := st.syms[name]; ok {
		return s.isSet, true
	}
	return false, false
}

func (st *vSymTab) EvalBool(name string) *bool {
	s := st.syms[name]
	if s == nil || s.null {
		return nil
	}
	v := s.b
	return &v
}

func (st *vSymTab) EvalString(name string) *string {
	s := st.syms[name]
	if s == nil || s.null {
		return nil
	}
	v := s.s
	return &v
}

func (st *vSymTab) EvalInt64(name string) *int64 {
	s := st.syms[name]
	if s == nil || s.null {
		return nil
	}
	v := s.i
	return &v
}

func (st *vSymTab) EvalFloat64(name string) *float64 {
	s := st.syms[name]
	if s == nil || s.null {
		return nil
	}
	v := s.f
	return &v
}

func (st *vSymTab) EvalDatetime(name string) *time.Time {
	s := st.syms[name]
	if s == nil || s.null {
		return nil
	}
	v := s.t
	return &v
}

func (st *vSymTab) IsNil(name string) bool {
	s := st.syms[name]
	return s == nil || s.null
}

func (st *vSymTab) OpenSetCursor(name string) SetCursor {
	s := st.syms[name]
	if s == nil {
		return NewEmptyCursor()
	}
	return &sliceSetCursor{values: s.set}
}

func (st *vSymTab) OpenSetCursorForQuery(name string, query Query) SetCursor {
	return st.OpenSetCursor(name)
}
