//go:build verif

package ast

import (
	"strings"

	"github.com/openziti/storage/verifrt"
)

// C11, operand positions: a literal written with the reference escaping
// denotes exactly its string as operand of =, !=, in, contains (evaluated by
// the real typer/evaluator through the listener's terminal visit).

var vC11Templates = []string{
	`s = "__VERIF_LIT__"`,
	`s != "__VERIF_LIT__"`,
	`s in ["__VERIF_LIT__"]`,
	`s in ["zz", "__VERIF_LIT__"]`,
	`s contains "__VERIF_LIT__"`,
}

func init() {
	VerifTemplates = append(VerifTemplates, vC11Templates...)
}

func verifEscapeLiteral(s string) string {
	out := make([]byte, 0, 2*len(s))
	for i := 0; i < len(s); i++ {
		b := s[i]
		switch b {
		case '\\', '"':
			out = append(out, '\\', b)
		case '\f':
			out = append(out, '\\', 'f')
		case '\n':
			out = append(out, '\\', 'n')
		case '\r':
			out = append(out, '\\', 'r')
		case '\t':
			out = append(out, '\\', 't')
		default:
			out = append(out, b)
		}
	}
	return string(out)
}

func VerifC11_OperandPositions() {
	maxLen := 2
	if verifrt.Tier() == 1 {
		maxLen = 3
	}
	k := verifrt.Choose("template", len(vC11Templates))
	// the literal: arbitrary bytes up to maxLen, or one of a few longer texts
	// that spell operator words and query syntax (data, not syntax, inside quotes)
	words := []string{"not", "NOT x", "and", "or b", "null", "true", "in [", "sort by s", "limit none", "contains", "a\"b\\c", "datetime(", ")"}
	var x, v string
	if w := verifrt.Choose("x.kind", 1+len(words)); w == 0 {
		x = verifrt.StringUpTo("x", maxLen)
		for i := 0; i < len(x); i++ {
			b := x[i]
			ctl := verifrt.Or(verifrt.Or(b == '\f', b == '\n'), verifrt.Or(b == '\r', b == '\t'))
			verifrt.Assume(verifrt.Or(verifrt.InRange(b, 0x20, 0x7e), ctl))
		}
		v = verifrt.StringUpTo("v", maxLen)
	} else {
		x = words[w-1]
		switch verifrt.Choose("v.kind", 3) {
		case 0:
			v = verifrt.StringUpTo("v", maxLen)
		case 1:
			v = x
		case 2:
			v = "k" + x + "s"
		}
	}
	st := newSymTab()
	st.syms["s"] = &vSym{typ: NodeTypeString, s: v}
	text := strings.Replace(vC11Templates[k], verifLiteralPlaceholder, verifEscapeLiteral(x), 1)
	q, err := Parse(st, text)
	verifrt.Assert(err == nil, "C11 the escaped literal is accepted in every operand position")
	got := q.EvalBool(st)
	var want bool
	switch k {
	case 0:
		want = v == x
	case 1:
		want = v != x
	case 2:
		want = v == x
	case 3:
		want = verifrt.Or(v == "zz", v == x)
	case 4:
		want = strings.Contains(v, x)
	}
	verifrt.Assert(got == want, "C11 the literal denotes exactly its string as operand: "+vC11Templates[k])
}

// several escaped literals in ONE filter: each denotes its own string (nothing
// carried over from the literal decoded before it)
var vC11Pairs = [][2]string{{"a\\b", "c\"d"}, {"x\ty", "p\\q"}, {"\"", "\\"}, {"C:\\temp", "D:\\data"}}

func verifC11PairQueries() []string {
	var qs []string
	for _, p := range vC11Pairs {
		a, b := verifEscapeLiteral(p[0]), verifEscapeLiteral(p[1])
		qs = append(qs, `s in ["`+a+`", "`+b+`"]`, `s = "`+a+`" or s = "`+b+`"`, `s contains "`+a+`" and s contains "`+b+`"`)
	}
	return qs
}

func init() {
	verifQueryFamilies = append(verifQueryFamilies, verifC11PairQueries)
}

func VerifC11_SeveralLiteralsInOneFilter() {
	k := verifrt.Choose("pair", len(vC11Pairs))
	form := verifrt.Choose("form", 3)
	a, b := vC11Pairs[k][0], vC11Pairs[k][1]
	var v string
	switch verifrt.Choose("v.kind", 5) {
	case 0:
		v = verifrt.StringUpTo("v", 2)
	case 1:
		v = a
	case 2:
		v = b
	case 3:
		v = a + b
	case 4:
		v = b + "-" + a
	}
	st := newSymTab()
	st.syms["s"] = &vSym{typ: NodeTypeString, s: v}
	text := verifC11PairQueries()[3*k+form]
	q, err := Parse(st, text)
	verifrt.Assert(err == nil, "C11 a filter with several escaped literals is accepted: "+text)
	got := q.EvalBool(st)
	var want bool
	switch form {
	case 0, 1:
		want = verifrt.Or(v == a, v == b)
	case 2:
		want = verifrt.And(strings.Contains(v, a), strings.Contains(v, b))
	}
	verifrt.Assert(got == want, "C11 each of several literals in one filter denotes exactly its own string: "+text)
}
