//go:build verif

package ast

import (
	"strings"
	"time"

	"github.com/openziti/storage/verifrt"
)

// C01 layer 1: the typed comparison kernel. One row with a nullable field of
// each scalar type (values symbolic), programs = every operator x literal kind
// the grammar admits, meaning = appendix A.1 of DESIGN.md.

type vRowVals struct {
	s *string
	i *int64
	f *float64
	b *bool
	t *time.Time
}

type vKProg struct {
	text  string
	needs string
	want  func(r *vRowVals) bool
}

func strCmp(op string, l *string, r string) bool {
	if l == nil {
		return op == "!="
	}
	switch op {
	case "=":
		return *l == r
	case "!=":
		return *l != r
	case "<":
		return *l < r
	case "<=":
		return *l <= r
	case ">":
		return *l > r
	}
	return *l >= r
}

func intCmp(op string, l *int64, r int64) bool {
	if l == nil {
		return op == "!="
	}
	switch op {
	case "=":
		return *l == r
	case "!=":
		return *l != r
	case "<":
		return *l < r
	case "<=":
		return *l <= r
	case ">":
		return *l > r
	}
	return *l >= r
}

func fltCmp(op string, l *float64, r float64) bool {
	if l == nil {
		return op == "!="
	}
	switch op {
	case "=":
		return *l == r
	case "!=":
		return *l != r
	case "<":
		return *l < r
	case "<=":
		return *l <= r
	case ">":
		return *l > r
	}
	return *l >= r
}

// int field compared with a float literal: int-to-float coercion
func intFltCmp(op string, l *int64, r float64) bool {
	if l == nil {
		return op == "!="
	}
	f := float64(*l)
	return fltCmp(op, &f, r)
}

var vOps = []string{"=", "!=", "<", "<=", ">", ">="}

var (
	vT0 = time.Date(2020, 1, 2, 3, 4, 5, 0, time.UTC)
	vT1 = time.Date(2021, 1, 2, 3, 4, 5, 0, time.UTC)
)

const vT0s = "datetime(2020-01-02T03:04:05Z)"
const vT1s = "datetime(2021-01-02T03:04:05Z)"
const vT0zone = "datetime(2020-01-02T05:04:05+02:00)" // the instant vT0

func timeCmp(op string, l *time.Time, r time.Time) bool {
	if l == nil {
		return op == "!="
	}
	switch op {
	case "=":
		return l.Equal(r)
	case "!=":
		return !l.Equal(r)
	case "<":
		return l.Before(r)
	case "<=":
		return !l.After(r)
	case ">":
		return l.After(r)
	}
	return !l.Before(r)
}

func verifKernelProgs() []vKProg {
	var ps []vKProg
	add := func(text, needs string, want func(r *vRowVals) bool) {
		ps = append(ps, vKProg{text, needs, want})
	}
	for _, op := range vOps {
		op := op
		add(`s `+op+` "b"`, "s", func(r *vRowVals) bool { return strCmp(op, r.s, "b") })
		add(`s `+op+` ""`, "s", func(r *vRowVals) bool { return strCmp(op, r.s, "") })
		add(`i `+op+` 5`, "i", func(r *vRowVals) bool { return intCmp(op, r.i, 5) })
		add(`i `+op+` -1`, "i", func(r *vRowVals) bool { return intCmp(op, r.i, -1) })
		add(`i `+op+` 5.5`, "i", func(r *vRowVals) bool { return intFltCmp(op, r.i, 5.5) })
		add(`f `+op+` 1.5`, "f", func(r *vRowVals) bool { return fltCmp(op, r.f, 1.5) })
		add(`f `+op+` 2`, "f", func(r *vRowVals) bool { return fltCmp(op, r.f, 2) })
		add(`t `+op+` `+vT0s, "t", func(r *vRowVals) bool { return timeCmp(op, r.t, vT0) })
	}
	// null tests
	add(`s = null`, "s", func(r *vRowVals) bool { return r.s == nil })
	add(`s != null`, "s", func(r *vRowVals) bool { return r.s != nil })
	add(`i = null`, "i", func(r *vRowVals) bool { return r.i == nil })
	add(`f != null`, "f", func(r *vRowVals) bool { return r.f != nil })
	add(`b = null`, "b", func(r *vRowVals) bool { return r.b == nil })
	add(`t != null`, "t", func(r *vRowVals) bool { return r.t != nil })
	// bool
	add(`b = true`, "b", func(r *vRowVals) bool { return r.b != nil && *r.b })
	add(`b = false`, "b", func(r *vRowVals) bool { return r.b != nil && !*r.b })
	add(`b != true`, "b", func(r *vRowVals) bool { return r.b == nil || !*r.b })
	add(`b != false`, "b", func(r *vRowVals) bool { return r.b == nil || *r.b })
	add(`b = true or s = "b"`, "bs", func(r *vRowVals) bool { return verifrt.Or(r.b != nil && *r.b, strCmp("=", r.s, "b")) })
	add(`b`, "b", func(r *vRowVals) bool { return r.b != nil && *r.b })
	add(`not (b)`, "b", func(r *vRowVals) bool { return !(r.b != nil && *r.b) })
	// in / not in
	inS := func(r *vRowVals) bool { return r.s != nil && verifrt.Or(*r.s == "a", *r.s == "bc") }
	add(`s in ["a", "bc"]`, "s", inS)
	add(`s not in ["a", "bc"]`, "s", func(r *vRowVals) bool { return verifrt.Not(inS(r)) })
	inI := func(r *vRowVals) bool { return r.i != nil && verifrt.Or(*r.i == 1, *r.i == 7) }
	add(`i in [1, 7]`, "i", inI)
	add(`i not in [1, 7]`, "i", func(r *vRowVals) bool { return verifrt.Not(inI(r)) })
	add(`i in [1.5, 7]`, "i", func(r *vRowVals) bool { return r.i != nil && *r.i == 7 })
	inF := func(r *vRowVals) bool { return r.f != nil && verifrt.Or(*r.f == 1.5, *r.f == 2) }
	add(`f in [1.5, 2]`, "f", inF)
	add(`f not in [1.5, 2]`, "f", func(r *vRowVals) bool { return verifrt.Not(inF(r)) })
	add(`f in [1, 2]`, "f", func(r *vRowVals) bool { return r.f != nil && verifrt.Or(*r.f == 1, *r.f == 2) })
	add(`t in [`+vT0s+`, `+vT1s+`]`, "t", func(r *vRowVals) bool { return r.t != nil && (r.t.Equal(vT0) || r.t.Equal(vT1)) })
	// the same instants written with a zone offset: a datetime is an instant,
	// not a spelling
	add(`t in [`+vT0zone+`]`, "t", func(r *vRowVals) bool { return r.t != nil && r.t.Equal(vT0) })
	add(`t = `+vT0zone, "t", func(r *vRowVals) bool { return timeCmp("=", r.t, vT0) })
	add(`t >= `+vT0zone, "t", func(r *vRowVals) bool { return timeCmp(">=", r.t, vT0) })
	add(`t between `+vT0zone+` and `+vT1s, "t", func(r *vRowVals) bool { return r.t != nil && !r.t.Before(vT0) && r.t.Before(vT1) })
	// between: lower inclusive, upper exclusive
	btwI := func(r *vRowVals) bool { return r.i != nil && verifrt.And(*r.i >= 1, *r.i < 3) }
	add(`i between 1 and 3`, "i", btwI)
	add(`i not between 1 and 3`, "i", func(r *vRowVals) bool { return verifrt.Not(btwI(r)) })
	add(`i between 1.5 and 3.5`, "i", func(r *vRowVals) bool {
		if r.i == nil {
			return false
		}
		f := float64(*r.i)
		return verifrt.And(f >= 1.5, f < 3.5)
	})
	btwF := func(r *vRowVals) bool { return r.f != nil && verifrt.And(*r.f >= 1, *r.f < 2.5) }
	add(`f between 1 and 2.5`, "f", btwF)
	add(`f not between 1 and 2.5`, "f", func(r *vRowVals) bool { return verifrt.Not(btwF(r)) })
	add(`t between `+vT0s+` and `+vT1s, "t", func(r *vRowVals) bool { return r.t != nil && !r.t.Before(vT0) && r.t.Before(vT1) })
	add(`t not between `+vT0s+` and `+vT1s, "t", func(r *vRowVals) bool { return !(r.t != nil && !r.t.Before(vT0) && r.t.Before(vT1)) })
	// contains / icontains and negations (negated forms are true on null)
	cont := func(r *vRowVals) bool { return r.s != nil && strings.Contains(*r.s, "a") }
	add(`s contains "a"`, "s", cont)
	add(`s not contains "a"`, "s", func(r *vRowVals) bool { return verifrt.Not(cont(r)) })
	icont := func(r *vRowVals) bool {
		return r.s != nil && verifrt.Or(strings.Contains(*r.s, "a"), strings.Contains(*r.s, "A"))
	}
	add(`s icontains "A"`, "s", icont)
	add(`s not icontains "a"`, "s", func(r *vRowVals) bool { return verifrt.Not(icont(r)) })
	add(`s contains ""`, "s", func(r *vRowVals) bool { return r.s != nil })
	// number-to-string coercion: the number is rendered as decimal text
	add(`s = 5`, "s", func(r *vRowVals) bool { return r.s != nil && *r.s == "5" })
	add(`s contains 1`, "s", func(r *vRowVals) bool { return r.s != nil && strings.Contains(*r.s, "1") })
	// connectives over comparisons
	add(`s = "b" and i > 5`, "si", func(r *vRowVals) bool { return verifrt.And(strCmp("=", r.s, "b"), intCmp(">", r.i, 5)) })
	add(`s = "b" or i > 5`, "si", func(r *vRowVals) bool { return verifrt.Or(strCmp("=", r.s, "b"), intCmp(">", r.i, 5)) })
	add(`(not (s = "b")) and (i != 5 or b = true)`, "sib", func(r *vRowVals) bool {
		return verifrt.And(verifrt.Not(strCmp("=", r.s, "b")), verifrt.Or(intCmp("!=", r.i, 5), r.b != nil && *r.b))
	})
	return ps
}

func init() {
	verifQueryFamilies = append(verifQueryFamilies, func() []string {
		var qs []string
		for _, p := range verifKernelProgs() {
			qs = append(qs, p.text)
		}
		return qs
	})
}

// VerifC01_ComparisonKernel: every program of the family, for every value of
// the field it reads (null included): the real typer + evaluator agree with
// the documented meaning.
func VerifC01_ComparisonKernel() {
	progs := verifKernelProgs()
	p := progs[verifrt.Choose("program", len(progs))]
	maxLen := 2
	if verifrt.Tier() == 1 {
		maxLen = 3
	}
	r := &vRowVals{}
	st := newSymTab()
	st.syms["s"] = &vSym{typ: NodeTypeString, null: true}
	st.syms["i"] = &vSym{typ: NodeTypeInt64, null: true}
	st.syms["f"] = &vSym{typ: NodeTypeFloat64, null: true}
	st.syms["b"] = &vSym{typ: NodeTypeBool, null: true}
	st.syms["t"] = &vSym{typ: NodeTypeDatetime, null: true}
	if strings.Contains(p.needs, "s") && verifrt.Choose("s.null", 2) == 1 {
		v := verifrt.StringUpTo("s", maxLen)
		r.s = &v
		st.syms["s"] = &vSym{typ: NodeTypeString, s: v}
	}
	if strings.Contains(p.needs, "i") && verifrt.Choose("i.null", 2) == 1 {
		v := verifrt.Int64("i")
		r.i = &v
		st.syms["i"] = &vSym{typ: NodeTypeInt64, i: v}
	}
	if strings.Contains(p.needs, "f") && verifrt.Choose("f.null", 2) == 1 {
		v := verifrt.Float64("f")
		r.f = &v
		st.syms["f"] = &vSym{typ: NodeTypeFloat64, f: v}
	}
	if strings.Contains(p.needs, "b") && verifrt.Choose("b.null", 2) == 1 {
		v := verifrt.Bool("b")
		r.b = &v
		st.syms["b"] = &vSym{typ: NodeTypeBool, b: v}
	}
	if strings.Contains(p.needs, "t") {
		// null, or an arbitrary instant (year 1..9999, nanosecond resolution)
		if verifrt.Choose("t.null", 2) == 1 {
			v := verifrt.TimeUTC("t")
			r.t = &v
			st.syms["t"] = &vSym{typ: NodeTypeDatetime, t: v}
		}
	}
	q, err := Parse(st, p.text)
	verifrt.Assert(err == nil, "C01 well-typed family member parses: "+p.text)
	got := q.EvalBool(st)
	ok := got == p.want(r)
	// known finding: a null bool field reads as false in `b = false` / `b != false`
	nullBoolVsFalse := (p.text == "b = false" || p.text == "b != false") && r.b == nil
	if verifrt.Known("KF-C01-null-bool-reads-false", nullBoolVsFalse) {
		verifrt.KnownCheck("KF-C01-null-bool-reads-false", ok)
		return
	}
	verifrt.Assert(ok, "C01 comparison means what the documentation says: "+p.text)
}
