//go:build verif

package ast

import (
	"strings"
	"time"

	"github.com/openziti/storage/verifrt"
)

type vWordProg struct {
	text    string
	kind    int // 0 in, 1 between, 2 contains, 3 icontains, 4 literal spelling an operator word
	negated bool
	lit     string
}

// spellings of a (possibly negated) word operator: keywords are
// case-insensitive; `not in` takes exactly one blank (grammar), the others any
// run of whitespace
func verifWordSpellings(word string, negated bool) []string {
	cases := func(w string) []string {
		mixed := ""
		for i, c := range w {
			if i%2 == 0 {
				mixed += strings.ToUpper(string(c))
			} else {
				mixed += string(c)
			}
		}
		return []string{w, strings.ToUpper(w), mixed}
	}
	if !negated {
		return cases(word)
	}
	var out []string
	for _, n := range []string{"not", "NOT", "Not", "nOt", "noT"} {
		for _, w := range cases(word) {
			out = append(out, n+" "+w)
		}
	}
	if word != "in" {
		out = append(out, "not  \t"+word, "NoT\n"+strings.ToUpper(word))
	}
	return out
}

func verifC12Words() []vWordProg {
	var out []vWordProg
	for _, neg := range []bool{false, true} {
		for _, sp := range verifWordSpellings("in", neg) {
			out = append(out, vWordProg{`s ` + sp + ` ["x", "yz"]`, 0, neg, ""})
		}
		for _, sp := range verifWordSpellings("between", neg) {
			out = append(out, vWordProg{`n ` + sp + ` 1 and 3`, 1, neg, ""}, vWordProg{`n ` + sp + ` 1 AND 3`, 1, neg, ""})
		}
		for _, sp := range verifWordSpellings("contains", neg) {
			out = append(out, vWordProg{`s ` + sp + ` "x"`, 2, neg, ""})
		}
		for _, sp := range verifWordSpellings("icontains", neg) {
			out = append(out, vWordProg{`s ` + sp + ` "x"`, 3, neg, ""})
		}
	}
	// datetime literals: t/z case and padding inside the parentheses. (The
	// literal prefix `datetime(` itself is spelled with a fixed lower-case lexer
	// literal, not with the letter fragments the keywords use; an upper-case
	// DATETIME( is rejected by the lexer. It is literal syntax rather than a
	// keyword or word operator, so the check does not demand it.)
	for _, body := range []string{"2020-01-02T03:04:05Z", "2020-01-02t03:04:05z", "2020-01-02T05:04:05+02:00"} {
		for _, kw := range []string{"datetime("} {
			for _, pad := range []string{"", " ", "\t", "\n", "\r\n ", "  \t"} {
				out = append(out, vWordProg{"t < " + kw + pad + body + pad + ")", 5, false, ""})
			}
		}
	}
	out = append(out, vWordProg{"t < datetime(\t2020-01-02T03:04:05Z)", 5, false, ""}, vWordProg{"t < datetime(2020-01-02T03:04:05Z\n)", 5, false, ""})
	// operator words inside string literals are data, not operators
	for _, lit := range []string{"not", "no", "NOT ", "t not in"} {
		out = append(out,
			vWordProg{`s contains "` + lit + `"`, 4, false, lit},
			vWordProg{`s not contains "` + lit + `"`, 4, true, lit},
			vWordProg{`s = "` + lit + `" or s contains "` + lit + `"`, 4, false, lit})
	}
	return out
}

func init() {
	verifQueryFamilies = append(verifQueryFamilies, func() []string {
		var qs []string
		for _, p := range verifC12Words() {
			qs = append(qs, p.text)
		}
		return qs
	})
}

// VerifC12_WordOperators: keywords and word operators are case-insensitive and
// whitespace-tolerant: every spelling of in / between / contains / icontains
// and their `not` forms evaluates to the operator's meaning (and exactly the
// negation for the `not` forms) for every field value.
func VerifC12_WordOperators() {
	fam := verifC12Words()
	p := fam[verifrt.Choose("program", len(fam))]
	st := newSymTab()
	maxS := 2
	if p.kind == 4 {
		maxS = len(p.lit) + 1
	}
	sv := verifrt.StringUpTo("s", maxS)
	nv := verifrt.Int64("n")
	st.syms["s"] = &vSym{typ: NodeTypeString, s: sv}
	st.syms["n"] = &vSym{typ: NodeTypeInt64, i: nv}
	var tv time.Time
	if p.kind == 5 {
		tv = verifrt.TimeUTC("t")
		st.syms["t"] = &vSym{typ: NodeTypeDatetime, t: tv}
	}
	q, err := Parse(st, p.text)
	verifrt.Assert(err == nil, "C12 word-operator query parses: "+p.text)
	got := q.EvalBool(st)
	var want bool
	switch p.kind {
	case 0:
		want = verifrt.Or(sv == "x", sv == "yz")
	case 1:
		want = verifrt.And(nv >= 1, nv < 3)
	case 2:
		want = strings.Contains(sv, "x")
	case 3:
		want = verifrt.Or(strings.Contains(sv, "x"), strings.Contains(sv, "X"))
	case 4:
		want = strings.Contains(sv, p.lit)
	case 5:
		want = tv.Before(vT0)
	}
	if p.negated {
		want = verifrt.Not(want)
	}
	verifrt.Assert(got == want, "C12 word operator means the same in every spelling: "+p.text)
}

// `not (P)` is the negation of P for comparison atoms too, whatever the field
// holds - a null field included (P is false there, so not (P) is true)
var vC12NotAtoms = []string{`i < 3`, `i <= 3`, `i > 3`, `i >= 3`, `i = 3`, `i != 3`, `f < 1.5`, `f >= 1.5`, `t < ` + vT0s, `t >= ` + vT0s,
	`s < "b"`, `s >= "b"`, `i between 1 and 5`, `i in [1, 3]`, `s contains "b"`}

func init() {
	verifQueryFamilies = append(verifQueryFamilies, func() []string {
		var qs []string
		for _, a := range vC12NotAtoms {
			qs = append(qs, a, "not ("+a+")", "not (not ("+a+"))")
		}
		return qs
	})
}

func VerifC12_NotOverComparisons() {
	a := vC12NotAtoms[verifrt.Choose("atom", len(vC12NotAtoms))]
	st := newSymTab()
	null := verifrt.Bool("null")
	st.syms["i"] = &vSym{typ: NodeTypeInt64, i: verifrt.Int64("i"), null: null}
	st.syms["f"] = &vSym{typ: NodeTypeFloat64, f: verifrt.Float64("f"), null: null}
	st.syms["s"] = &vSym{typ: NodeTypeString, s: verifrt.StringUpTo("s", 1), null: null}
	st.syms["t"] = &vSym{typ: NodeTypeDatetime, t: verifrt.TimeUTC("t"), null: null}
	p, err := Parse(st, a)
	verifrt.Assert(err == nil, "C12 atom parses: "+a)
	n, err := Parse(st, "not ("+a+")")
	verifrt.Assert(err == nil, "C12 negated atom parses: "+a)
	nn, err := Parse(st, "not (not ("+a+"))")
	verifrt.Assert(err == nil, "C12 doubly negated atom parses: "+a)
	pv := p.EvalBool(st)
	verifrt.Assert(n.EvalBool(st) == verifrt.Not(pv), "C12 not (P) is the negation of P for every field value, null included: "+a)
	verifrt.Assert(nn.EvalBool(st) == pv, "C12 not (not (P)) means P: "+a)
}
