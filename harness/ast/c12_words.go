//go:build verif

package ast

import (
	"strings"

	"github.com/openziti/storage/verifrt"
)

type vWordProg struct {
	text    string
	kind    int // 0 in, 1 between, 2 contains, 3 icontains
	negated bool
}

// spellings of a (possibly negated) word operator: keywords are
// case-insensitive; `not in` takes exactly one blank (grammar), the others any
// run of whitespace
func verifWordSpellings(word string, negated bool) []string {
	cases := func(w string) []string {
		mixed := ""
		for i, c := range w {
			if i%2 == 0 {
				mixed += strings.ToUpper(string(c))
			} else {
				mixed += string(c)
			}
		}
		return []string{w, strings.ToUpper(w), mixed}
	}
	if !negated {
		return cases(word)
	}
	var out []string
	for _, n := range []string{"not", "NOT", "Not", "nOt", "noT"} {
		for _, w := range cases(word) {
			out = append(out, n+" "+w)
		}
	}
	if word != "in" {
		out = append(out, "not  \t"+word, "NoT\n"+strings.ToUpper(word))
	}
	return out
}

func verifC12Words() []vWordProg {
	var out []vWordProg
	for _, neg := range []bool{false, true} {
		for _, sp := range verifWordSpellings("in", neg) {
			out = append(out, vWordProg{`s ` + sp + ` ["x", "yz"]`, 0, neg})
		}
		for _, sp := range verifWordSpellings("between", neg) {
			out = append(out, vWordProg{`n ` + sp + ` 1 and 3`, 1, neg}, vWordProg{`n ` + sp + ` 1 AND 3`, 1, neg})
		}
		for _, sp := range verifWordSpellings("contains", neg) {
			out = append(out, vWordProg{`s ` + sp + ` "x"`, 2, neg})
		}
		for _, sp := range verifWordSpellings("icontains", neg) {
			out = append(out, vWordProg{`s ` + sp + ` "x"`, 3, neg})
		}
	}
	return out
}

func init() {
	verifQueryFamilies = append(verifQueryFamilies, func() []string {
		var qs []string
		for _, p := range verifC12Words() {
			qs = append(qs, p.text)
		}
		return qs
	})
}

// VerifC12_WordOperators: keywords and word operators are case-insensitive and
// whitespace-tolerant: every spelling of in / between / contains / icontains
// and their `not` forms evaluates to the operator's meaning (and exactly the
// negation for the `not` forms) for every field value.
func VerifC12_WordOperators() {
	fam := verifC12Words()
	p := fam[verifrt.Choose("program", len(fam))]
	st := newSymTab()
	sv := verifrt.StringUpTo("s", 2)
	nv := verifrt.Int64("n")
	st.syms["s"] = &vSym{typ: NodeTypeString, s: sv}
	st.syms["n"] = &vSym{typ: NodeTypeInt64, i: nv}
	q, err := Parse(st, p.text)
	verifrt.Assert(err == nil, "C12 word-operator query parses: "+p.text)
	got := q.EvalBool(st)
	var want bool
	switch p.kind {
	case 0:
		want = verifrt.Or(sv == "x", sv == "yz")
	case 1:
		want = verifrt.And(nv >= 1, nv < 3)
	case 2:
		want = strings.Contains(sv, "x")
	case 3:
		want = verifrt.Or(strings.Contains(sv, "x"), strings.Contains(sv, "X"))
	}
	if p.negated {
		want = verifrt.Not(want)
	}
	verifrt.Assert(got == want, "C12 word operator means the same in every spelling: "+p.text)
}
