//go:build verif

package ast

import (
	"time"

	"github.com/openziti/storage/verifrt"
)

// C10 (typing / evaluation half): every sentence of the grammar, whatever the
// operand type mix, is typed into a query or rejected with an error - never a
// panic - and every typed query evaluates without panicking on null fields,
// empty sets and non-empty sets.

var vC10Lhs = []string{"s", "i", "f", "b", "t", "tags.x", "roles", "nums", "nosuch",
	"anyOf(roles)", "allOf(nums)", "anyOf(tags.x)", "count(roles)", "count(nosuch)", "count(from roles where s = \"x\")", "anyOf(s)"}

var vC10Rhs = []string{`"x"`, `5`, `5.5`, vT0s}

func verifC10Programs() []string {
	var ps []string
	for _, l := range vC10Lhs {
		for _, op := range []string{"=", "!=", "<", "<=", ">", ">="} {
			for _, r := range vC10Rhs {
				ps = append(ps, l+" "+op+" "+r)
			}
		}
		for _, op := range []string{"=", "!="} {
			ps = append(ps, l+" "+op+" true", l+" "+op+" null")
		}
		for _, neg := range []string{"", "not "} {
			ps = append(ps,
				l+" "+neg+`in ["x", "y"]`, l+" "+neg+`in [1, 2]`, l+" "+neg+`in [1.5, 2]`, l+" "+neg+`in [`+vT0s+`]`,
				l+" "+neg+`between 1 and 5`, l+" "+neg+`between 1.5 and 5`, l+" "+neg+`between `+vT0s+` and `+vT1s,
				l+" "+neg+`contains "x"`, l+" "+neg+`contains 5`, l+" "+neg+`icontains "x"`)
		}
	}
	for _, l := range []string{"s", "i", "b", "roles", "nosuch", "tags.x"} {
		ps = append(ps, l, "not "+l, "not ("+l+")", "isEmpty("+l+")", "not isEmpty("+l+")", l+" and b", "b or "+l,
			"isEmpty(from "+l+" where b)", "true sort by "+l, "true sort by "+l+" desc, id", "true skip 1 limit "+"2")
	}
	// string literals with escapes in every operand position
	for _, lit := range []string{`"say \"hi\""`, `"a\\"`, `"\\"`, `"\""`, `"\n\t"`, `"x\\n"`} {
		ps = append(ps, `s = `+lit, `s != `+lit, `s in [`+lit+`, "b"]`, `s contains `+lit, `s icontains `+lit, `tags.x = `+lit)
	}
	ps = append(ps, "true", "false", "true limit none", "true skip -1", "true limit -5", "sort by s", "skip 2", "limit 1", "")
	return ps
}

func init() {
	verifQueryFamilies = append(verifQueryFamilies, verifC10Programs)
}

func verifC10SymTab() *vSymTab {
	st := newSymTab()
	null := func(name string) bool { return verifrt.Bool("null." + name) }
	mk := func(name string, typ NodeType) *vSym {
		s := &vSym{typ: typ, null: null(name)}
		st.syms[name] = s
		return s
	}
	mk("s", NodeTypeString).s = verifrt.StringUpTo("s", 1)
	mk("i", NodeTypeInt64).i = verifrt.Int64("i")
	mk("f", NodeTypeFloat64).f = verifrt.Float64("f")
	mk("b", NodeTypeBool).b = verifrt.Bool("b")
	mk("t", NodeTypeDatetime).t = vT0
	mk("tags.x", NodeTypeAnyType).s = "v"
	mk("id", NodeTypeString).s = "a"
	roles := mk("roles", NodeTypeString)
	roles.isSet = true
	roles.s = "r"
	if verifrt.Bool("roles.nonempty") {
		roles.set = [][]byte{[]byte("a"), []byte("r")}
	}
	nums := mk("nums", NodeTypeInt64)
	nums.isSet = true
	if verifrt.Bool("nums.nonempty") {
		nums.set = [][]byte{[]byte("1")}
	}
	return st
}

var _ = time.Second

// VerifC10_TypingAndEvaluationAreTotal
func VerifC10_TypingAndEvaluationAreTotal() {
	progs := verifC10Programs()
	p := progs[verifrt.Choose("program", len(progs))]
	st := newSymTab()
	// typing uses types only
	for name, typ := range map[string]NodeType{"s": NodeTypeString, "i": NodeTypeInt64, "f": NodeTypeFloat64, "b": NodeTypeBool, "t": NodeTypeDatetime, "tags.x": NodeTypeAnyType, "id": NodeTypeString} {
		st.syms[name] = &vSym{typ: typ}
	}
	st.syms["roles"] = &vSym{typ: NodeTypeString, isSet: true}
	st.syms["nums"] = &vSym{typ: NodeTypeInt64, isSet: true}
	var q Query
	var err error
	panicked, msg := verifrt.Catch(func() { q, err = Parse(st, p) })
	verifrt.Logf("panic message (if any): %v", msg) // not part of the label: executor and native wording differ
	verifrt.Assert(!panicked, "C10 typing a grammatical query does not panic: "+p+"")
	if err != nil {
		verifrt.Reach("C10 ill-typed query rejected with an error")
		return
	}
	verifrt.Assert(q != nil, "C10 a query or an error is returned: "+p)
	data := verifC10SymTab()
	panicked, msg = verifrt.Catch(func() {
		_ = q.EvalBool(data)
		for _, sf := range q.GetSortFields() {
			_ = sf.Symbol()
		}
		_ = q.GetSkip()
		_ = q.GetLimit()
	})
	verifrt.Logf("panic message (if any): %v", msg) // not part of the label: executor and native wording differ
	verifrt.Assert(!panicked, "C10 evaluating a typed query does not panic: "+p+"")
}

// VerifC10_CursorConstructors: the cursor constructors on empty inputs.
func VerifC10_CursorConstructors() {
	panicked, msg := verifrt.Catch(func() {
		c := NewTreeSet(verifrt.Bool("forward")).ToCursor()
		_ = c.IsValid()
		f := NewFilteredCursor(nil, func([]byte) bool { return true })
		_ = f.IsValid()
		f = NewFilteredCursor(NewEmptyCursor(), func([]byte) bool { return false })
		_ = f.IsValid()
		u := NewUnionSetCursor(NewEmptyCursor(), NewEmptyCursor(), verifrt.Bool("uforward"))
		_ = u.IsValid()
		EmptyCursor.Next()
		EmptyCursor.Seek(nil)
		_ = EmptyCursor.Current()
	})
	verifrt.Logf("panic message (if any): %v", msg) // not part of the label: executor and native wording differ
	verifrt.Assert(!panicked, "C10 cursor constructors accept empty inputs")
}

// ---- text that is not a sentence: characters the lexer does not recognise ----

var vC10Bases = []string{`s = "x"`, `i > 1 and b`, `anyOf(roles) = "a" sort by s desc limit 2`, `s in ["x", "y"] or not (b)`}

// characters that occur in no token of the grammar (outside string literals)
var vC10BadChars = []string{"#", "$", "%", "&", "'", ";", "?", "@", "^", "`", "~", "{", "}", "|", "\\", "*", "/", "\x01", "\x7f", "é", "\f", "\v", "\u0085", "\u00a0", "\u2028", "\u3000"}

// verifC10Mutants: every base query with one unrecognised character inserted
// at every position that is not inside a string literal.
func verifC10Mutants() []string {
	var out []string
	for _, b := range vC10Bases {
		inStr := false
		for pos := 0; pos <= len(b); pos++ {
			if pos > 0 && b[pos-1] == '"' {
				inStr = !inStr
			}
			if inStr {
				continue
			}
			for _, c := range vC10BadChars {
				out = append(out, b[:pos]+c+b[pos:])
			}
		}
	}
	return out
}

func init() {
	verifQueryFamilies = append(verifQueryFamilies, verifC10Mutants, func() []string { return vC10Bases })
}

// VerifC10_UnrecognisedCharactersRejected: a grammatical query into which one
// character that belongs to no token has been inserted (anywhere outside a
// string literal) is rejected with an error - it is not silently parsed as the
// query without that character. The base queries themselves are accepted.
func VerifC10_UnrecognisedCharactersRejected() {
	st := newSymTab()
	for name, typ := range map[string]NodeType{"s": NodeTypeString, "i": NodeTypeInt64, "b": NodeTypeBool} {
		st.syms[name] = &vSym{typ: typ}
	}
	st.syms["roles"] = &vSym{typ: NodeTypeString, isSet: true}
	for _, b := range vC10Bases {
		_, err := Parse(st, b)
		verifrt.Assert(err == nil, "C10 base query is accepted: "+b)
	}
	ms := verifC10Mutants()
	m := ms[verifrt.Choose("mutant", len(ms))]
	var err error
	panicked, msg := verifrt.Catch(func() { _, err = Parse(st, m) })
	verifrt.Logf("panic message (if any): %v", msg) // not part of the label: executor and native wording differ
	verifrt.Assert(!panicked, "C10 parsing text with an unrecognised character does not panic")
	verifrt.Assert(err != nil, "C10 text containing a character the lexer does not recognise is rejected")
}
