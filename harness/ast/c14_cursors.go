//go:build verif

package ast

import (
	"bytes"

	"github.com/openziti/storage/verifrt"
)

func verifC14N() int {
	if verifrt.Tier() == 1 {
		return 4
	}
	return 3
}

// verifSliceCursor: a plain reference cursor over a listing (used as the input
// of the wrapping cursors; not one of the cursors under test).
func verifListing(set [][]byte, forward bool) SetCursor {
	vals := make([][]byte, len(set))
	for i, e := range set {
		if forward {
			vals[i] = e
		} else {
			vals[len(set)-1-i] = e
		}
	}
	return &sliceSetCursor{values: vals}
}

// VerifC14_TreeSet: TreeSet/treeCursor enumerate exactly the added elements,
// in order (descending for reverse sets), for any insertion order; the empty
// set yields an invalid cursor without panicking.
func VerifC14_TreeSet() {
	forward := verifrt.Bool("forward")
	n := verifC14N()
	elems := verifrt.SymSet("e", n, 0, 2) // arbitrary insertion order, duplicates allowed
	ts := NewTreeSet(forward)
	for _, e := range elems {
		ts.Add(e)
	}
	var c SetCursor
	panicked, msg := verifrt.Catch(func() { c = ts.ToCursor() })
	verifrt.Logf("panic message (if any): %v", msg) // not part of the label: executor and native wording differ
	verifrt.Assert(!panicked, "C14 tree cursor: no panic creating a cursor")
	verifrt.Drain(elems, c, forward, len(elems), "C14 tree cursor")
}

// VerifC14_FilteredCursor: a filtered cursor enumerates exactly the elements
// of the wrapped cursor that pass the filter, in the wrapped order.
func VerifC14_FilteredCursor() {
	forward := verifrt.Bool("forward")
	n := verifC14N()
	set := verifrt.SortedSet("e", n, 0, 2)
	keep := make([]bool, len(set))
	var kept [][]byte
	for i := range set {
		keep[i] = verifrt.Bool("keep")
	}
	// the filter is a function of the element value
	filter := func(val []byte) bool {
		r := false
		for i, e := range set {
			r = verifrt.Or(r, verifrt.And(keep[i], bytes.Equal(e, val)))
		}
		return r
	}
	// reference: elements with keep set; expressed as a set with a guard per
	// element is not needed - build the kept listing by forking on the bits
	for i := range set {
		if keep[i] {
			kept = append(kept, set[i])
		}
	}
	c := NewFilteredCursor(verifListing(set, forward), filter)
	verifrt.Drain(kept, c, forward, len(kept), "C14 filtered cursor")
}

// VerifC14_FilteredCursorNil: nil / exhausted input gives an invalid cursor.
func VerifC14_FilteredCursorEmptyInput() {
	c := NewFilteredCursor(nil, func([]byte) bool { return true })
	verifrt.Assert(!c.IsValid(), "C14 filtered cursor over nil is invalid")
	c = NewFilteredCursor(verifListing(nil, true), func([]byte) bool { return true })
	verifrt.Assert(!c.IsValid(), "C14 filtered cursor over an empty cursor is invalid")
	verifrt.Assert(!NewEmptyCursor().IsValid(), "C14 empty cursor is invalid")
}

// VerifC14_UnionCursor: the union of two ordered cursors enumerates the union
// of the two sets once each, in order, in both directions.
func VerifC14_UnionCursor() {
	forward := verifrt.Bool("forward")
	n := 2
	if verifrt.Tier() == 1 {
		n = 3
	}
	a := verifrt.SortedSet("a", n, 0, 2)
	b := verifrt.SortedSet("b", n, 0, 2)
	c := NewUnionSetCursor(verifListing(a, forward), verifListing(b, forward), forward)
	all := append(append([][]byte{}, a...), b...)
	verifrt.Drain(all, c, forward, len(all), "C14 union cursor")
}
