//go:build verif

package ast

import (
	"time"

	"github.com/antlr4-go/antlr/v4"
	"github.com/pkg/errors"

	"github.com/openziti/storage/verifrt"
	"github.com/openziti/storage/zitiql"
)

// verifEvent is one callback of the real parse-tree walker, recorded natively
// by /verif/gen/astgen from the real lexer/parser (see there).
type verifEvent struct {
	Kind int // 0 enter rule, 1 exit rule, 2 terminal, 3 error node
	Name string
	Tok  int
	Text string
}

var (
	verifTraceFor    func(q string) ([]verifEvent, string, bool)
	verifDispatch    func(l *ToBoltListener, name string, ctx antlr.ParserRuleContext) bool
	verifNewCtx      func(rule string) antlr.ParserRuleContext
	verifDatetimeFor func(text string) (sec, nsec int64, off int, utc bool, errText string, ok bool)
)

// VerifParseZqlDatetime stands in for zitiql.ParseZqlDatetime inside the
// executor only (regexp and time.Parse are not interpreted): the result is what
// the REAL function of the current tree returned for this literal text when
// /verif/gen/astgen ran it natively. Native builds call the real function.
func VerifParseZqlDatetime(text string) (time.Time, error) {
	sec, nsec, off, utc, errText, ok := verifDatetimeFor(text)
	if !ok {
		verifrt.Unsupported("datetime literal not in the generated table: " + text)
	}
	if errText != "" {
		return time.Time{}, errors.New(errText)
	}
	return verifrt.ZonedTime(sec, nsec, off, utc), nil
}

type verifToken struct {
	antlr.Token
	typ  int
	text string
}

func (t *verifToken) GetTokenType() int { return t.typ }
func (t *verifToken) GetText() string   { return t.text }

type verifTerminal struct {
	antlr.TerminalNode
	tok *verifToken
}

func (t *verifTerminal) GetSymbol() antlr.Token { return t.tok }
func (t *verifTerminal) GetText() string        { return t.tok.text }

// verifLiteralPlaceholder is the body of the STRING literal that template
// queries use; VerifParseTemplate substitutes it.
const verifLiteralPlaceholder = "__VERIF_LIT__"

// VerifValidStringBody reports whether body is a sequence of (ESC |
// SAFECODEPOINT) as the grammar's STRING token requires: no control
// characters, no bare quote, backslash only in \" \\ \f \n \r \t.
func VerifValidStringBody(body string) bool {
	ok := true
	i := 0
	for i < len(body) {
		c := body[i]
		if c == '\\' {
			if i+1 >= len(body) {
				return false
			}
			n := body[i+1]
			isEsc := verifrt.Or(verifrt.Or(n == '"', n == '\\'), verifrt.Or(verifrt.Or(n == 'f', n == 'n'), verifrt.Or(n == 'r', n == 't')))
			ok = verifrt.And(ok, isEsc)
			i += 2
			continue
		}
		ok = verifrt.And(ok, verifrt.And(c != '"', c >= 0x20))
		i++
	}
	return ok
}

// verifReplay drives the real ToBoltListener with a recorded callback trace.
// lit, when non-nil, replaces the text of STRING tokens holding the placeholder.
func verifReplay(symbolTypes SymbolTypes, events []verifEvent, lit *string) (Query, error) {
	listener := NewListener()
	// The rule contexts handed to the listener are rebuilt as real context
	// objects of the generated parser's types (children: sub-contexts and
	// terminal nodes in source order), so listener code that reads its context
	// (GetText, token / child accessors) sees what the real walker would give it.
	// Not rebuilt: start/stop tokens, parser reference, invoking states.
	var stack []antlr.ParserRuleContext
	for _, ev := range events {
		switch ev.Kind {
		case 0:
			c := verifNewCtx(ev.Name[len("Enter"):])
			if c == nil {
				return nil, errors.Errorf("verif: no context type for %v", ev.Name)
			}
			if len(stack) > 0 {
				top := stack[len(stack)-1]
				top.AddChild(c)
				c.SetParent(top)
			}
			stack = append(stack, c)
			if !verifDispatch(listener, ev.Name, c) {
				return nil, errors.Errorf("verif: no listener method %v", ev.Name)
			}
		case 1:
			if len(stack) == 0 {
				return nil, errors.Errorf("verif: unbalanced trace at %v", ev.Name)
			}
			c := stack[len(stack)-1]
			stack = stack[:len(stack)-1]
			if !verifDispatch(listener, ev.Name, c) {
				return nil, errors.Errorf("verif: no listener method %v", ev.Name)
			}
		case 2:
			text := ev.Text
			if lit != nil && ev.Tok == zitiql.ZitiQlLexerSTRING && text == `"`+verifLiteralPlaceholder+`"` {
				text = `"` + *lit + `"`
			}
			tok := &verifToken{typ: ev.Tok, text: text}
			if len(stack) > 0 {
				listener.VisitTerminal(stack[len(stack)-1].AddTokenNode(tok))
			} else {
				listener.VisitTerminal(&verifTerminal{tok: tok})
			}
		case 3:
			// error nodes only occur together with reported syntax errors
		}
	}
	return listener.getQuery(symbolTypes)
}

// VerifParse is what ast.Parse is redirected to inside the symbolic executor:
// the real Parse with the ANTLR front end replaced by the recorded trace of
// the same query string.
func VerifParse(symbolTypes SymbolTypes, query string) (Query, error) {
	if query == "" {
		return &queryNode{Predicate: BoolNodeTrue, SortBy: &SortByNode{}}, nil
	}
	if verifTraceFor == nil {
		verifrt.Outside("no parse traces generated")
	}
	if _, _, recorded := verifTraceFor(verifConcreteOrEmpty(query)); !verifrt.IsConcrete(query) || !recorded {
		// a query assembled from data (or a concrete instance of a template
		// that has no recorded trace of its own): match it against the
		// registered templates (the text around the literal is concrete)
		// longest literal context first: a shorter template's context may be a
		// prefix of a longer one's
		for _, t := range verifTemplatesByContext() {
			pre, suf := verifSplitTemplate(t)
			if len(query) >= len(pre)+len(suf) && query[:len(pre)] == pre && query[len(query)-len(suf):] == suf {
				body := query[len(pre) : len(query)-len(suf)]
				if !VerifValidStringBody(body) {
					// Not one STRING token: the real lexer would report a syntax
					// error or tokenise a different query. Modelled as a syntax
					// error; the native replay (real parser) arbitrates.
					return nil, errors.New("verif model: text between the quotes is not a valid string literal body")
				}
				return VerifParseTemplate(symbolTypes, t, body)
			}
		}
		if !verifrt.IsConcrete(query) {
			verifrt.Unsupported("data-dependent query string that matches no registered template")
		}
	}
	events, perr, ok := verifTraceFor(query)
	if !ok {
		verifrt.Unsupported("query string without a recorded parse trace: " + query)
	}
	if perr != "" {
		return nil, errors.New(perr)
	}
	return verifReplay(symbolTypes, events, nil)
}

// VerifParseTemplate parses template (a query containing the placeholder
// literal) with body substituted as the literal's text. body must be a valid
// STRING body (the caller establishes that; it is what makes the recorded
// token stream of the template the token stream of the substituted query).
func VerifParseTemplate(symbolTypes SymbolTypes, template string, body string) (Query, error) {
	events, perr, ok := verifTraceFor(template)
	if !ok {
		verifrt.Unsupported("template without a recorded parse trace: " + template)
	}
	if perr != "" {
		return nil, errors.New(perr)
	}
	return verifReplay(symbolTypes, events, &body)
}

// VerifTemplates: queries with one placeholder literal, e.g.
// `boss = "__VERIF_LIT__"`, for query strings the code assembles from data.
var VerifTemplates []string

func verifConcreteOrEmpty(q string) string {
	if verifrt.IsConcrete(q) {
		return q
	}
	return ""
}

func verifTemplatesByContext() []string {
	ts := append([]string{}, VerifTemplates...)
	for i := 1; i < len(ts); i++ {
		for j := i; j > 0; j-- {
			pa, sa := verifSplitTemplate(ts[j-1])
			pb, sb := verifSplitTemplate(ts[j])
			if len(pb)+len(sb) > len(pa)+len(sa) {
				ts[j-1], ts[j] = ts[j], ts[j-1]
			}
		}
	}
	return ts
}

func verifSplitTemplate(t string) (string, string) {
	ph := verifLiteralPlaceholder
	for i := 0; i+len(ph) <= len(t); i++ {
		if t[i:i+len(ph)] == ph {
			return t[:i], t[i+len(ph):]
		}
	}
	return t, ""
}

var verifQueryFamilies []func() []string

// VerifQueries lists every concrete query string the ast harnesses parse.
func VerifQueries() []string {
	var out []string
	for _, f := range verifQueryFamilies {
		out = append(out, f()...)
	}
	out = append(out, VerifTemplates...)
	return out
}
