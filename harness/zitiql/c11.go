//go:build verif

package zitiql

import "github.com/openziti/storage/verifrt"

// verifEscape is the reference escaper of C11: backslash and double quote are
// backslash-escaped; the four control characters are written as \f \n \r \t
// when esc[i] is set (the statement says "optionally"), raw otherwise.
func verifEscape(s string, escCtl []bool) string {
	out := make([]byte, 0, 2*len(s))
	for i := 0; i < len(s); i++ {
		b := s[i]
		if b == '\\' {
			out = append(out, '\\', '\\')
		} else if b == '"' {
			out = append(out, '\\', '"')
		} else if verifrt.And(escCtl[i], verifIsCtl(b)) {
			out = append(out, '\\', verifCtlLetter(b))
		} else {
			out = append(out, b)
		}
	}
	return string(out)
}

func verifIsCtl(b byte) bool {
	return verifrt.Or(verifrt.Or(b == '\f', b == '\n'), verifrt.Or(b == '\r', b == '\t'))
}

func verifCtlLetter(b byte) byte {
	return verifrt.IteByte(b == '\f', 'f', verifrt.IteByte(b == '\n', 'n', verifrt.IteByte(b == '\r', 'r', 't')))
}

func verifC11Alphabet(b byte) bool {
	// printable ASCII plus the four escapable control characters
	return verifrt.Or(verifrt.InRange(b, 0x20, 0x7e), verifIsCtl(b))
}

// VerifC11_LiteralRoundTrip: for every string s (bounded length, printable
// ASCII + \f\n\r\t), the quoted literal built by the reference escaper denotes
// exactly s under the real ParseZqlString. Injectivity ("two different
// strings never denote the same value") is a corollary: s1 != s2 implies
// denote(lit(s1)) = s1 != s2 = denote(lit(s2)).
func VerifC11_LiteralRoundTrip() {
	maxLen := 4
	if verifrt.Tier() == 1 {
		maxLen = 6
	}
	s := verifrt.StringUpTo("s", maxLen)
	escCtl := make([]bool, len(s))
	for i := 0; i < len(s); i++ {
		verifrt.Assume(verifC11Alphabet(s[i]))
		escCtl[i] = verifrt.Bool("escctl")
	}
	lit := `"` + verifEscape(s, escCtl) + `"`
	got := ParseZqlString(lit)
	verifrt.Assert(got == s, "C11 literal denotes exactly s")
}
