#!/usr/bin/env python3
"""Regenerates /verif/MANIFEST.json from the table below and validates it
against /root/.vp/MANIFEST.schema.json. Edit CHECKS / NOT_APPLICABLE here."""
import json, sys, os

ALL = ["C%02d" % i for i in range(1, 21)]

TECH = ("bounded symbolic execution of the real functions' go/ssa (regenerated from /repo on every run); "
        "inputs are SMT variables (QF_BV + FP), the property is an assertion, z3 decides every path; "
        "counterexamples and one witness per harness are replayed natively against the real build")

BASE_NOTE = ("Trusted base: the gosym executor (fork of x/tools go/ssa/interp + symbolic value layer), z3 4.8.12, "
             "the intrinsics listed in the evidence file (sync = no-op, goroutines inline, fixed map order). "
             "Bounded: nothing is claimed outside the bounds stated here and in DESIGN.md. ")

# id -> (text, note, design_ref)
CHECKS = {
    "C11": (
        "For every string s of <=4 (quick) / <=6 (thorough) bytes over printable ASCII + \\f\\n\\r\\t and every choice of "
        "escaping the control characters or not, the solver shows that the real zitiql.ParseZqlString maps the literal built "
        "by the reference escaper back to exactly s (injectivity is a corollary). Bounded model checking: all paths of the "
        "real function for those lengths are decided by z3; any model is replayed natively.",
        BASE_NOTE + "Outside: longer strings, non-ASCII bytes, the ANTLR lexer's acceptance of the literal (grammar fragment), "
        "operand positions other than the terminal visit that calls ParseZqlString.",
        "6/C11"),
}

CHECKS["C13"] = (
    "Compound-key codec part of C13: for every list of <=3 strings of <=3 (quick) / <=4 (thorough) arbitrary bytes the solver shows "
    "DecodeStringSlice(EncodeStringSlice(x)) == x on every path of the real encode.go code (binary.PutUvarint/Uvarint interpreted from "
    "std source), equal encodings imply equal lists (<=2 x <=2 bytes), the uvarint pair round-trips every uint64, and components of "
    "127/128/129/4095/4096/4097 bytes (symbolic fill byte) round-trip or are rejected.",
    BASE_NOTE + "Typed scalar / container / field-checker parts of C13 are added as the bbolt-model harnesses land (see evidence for the harness list).",
    "6/C13")
CHECKS["C14"] = (
    "For every strictly ordered set of <=3 (quick) / <=4 (thorough) byte strings of <=2 arbitrary bytes (empty string and shared prefixes included) "
    "and every script of <=2/3 Next/Seek steps with symbolic seek targets, the solver shows on every path that each cursor stands on the first "
    "admissible element or is invalid iff none exists: raw forward/reverse bolt cursors, typed forward/reverse bolt cursors (values without tag), "
    "tree-set cursor (any insertion order, both directions, empty set), filtered cursor (symbolic filter bits), union cursor (both directions).",
    BASE_NOTE + "bbolt is replaced by the mbolt model (single-leaf buckets), validated against real bbolt v1.4.0 on 36k operation sequences; "
    "every counterexample is replayed on real bbolt. Outside: larger sets, longer elements, buckets spanning several pages.",
    "6/C14")

CHECKS["C03"] = (
    "One inductive step from an arbitrary valid state: 2 (quick) / 3 (thorough) entity slots, each absent or present with symbolic field values "
    "(unique name: one arbitrary byte; nullable / non-nullable unique nick: nil, empty or one arbitrary byte; roles: any subset of two values), built through the real "
    "Create, then one symbolic operation (create, full update, field-restricted update with a symbolic field checker, delete) with symbolic arguments run "
    "through the real DbImpl.Update / BaseStore code. The solver shows on every path that the operation is accepted iff the reference model accepts it "
    "(duplicate / empty non-nullable value rejected with UniqueIndexDuplicateError, missing entity as not-found), and that afterwards the entity fields and the "
    "raw unique-index and set-index buckets hold exactly what the successor state implies (no stale, extra or empty keys). One step from every valid state "
    "covers histories of any length over these bounds.",
    BASE_NOTE + "bbolt = mbolt model (validated against bbolt; rollback on error holds by construction and is assumed of bbolt). The three index kinds are "
    "checked in separate harnesses with the other fields fixed. Outside: longer values, more entities, set members that are empty strings.",
    "6/C03")
CHECKS["C12"] = (
    "Programs are enumerated (all boolean skeletons over distinct bool symbols and the literals true/false with <=3 (quick) / <=4 (thorough) connectives and/or/not, "
    "printed with minimal and full parentheses, upper/mixed case, extra whitespace, redundant parentheses; plus every case/whitespace spelling of in, between, "
    "contains, icontains and their not-forms) and parsed by the real lexer/parser natively; the recorded parse-tree walk is replayed against the real "
    "ToBoltListener, typer and evaluator inside the executor. Per program the solver decides equality with the formula the text was printed from for every "
    "truth assignment / field value.",
    BASE_NOTE + "The program dimension is enumerated, not symbolic (ANTLR's ATN interpreter is not encodable). `not (P)` directly left of a connective is "
    "not exercised (meaning not fixed by the statement). Known finding KF-C12-and-or-precedence (not repaired: needs the ANTLR tool).",
    "6/C12")

NOT_APPLICABLE = {
    "C18": "quantifies over goroutine schedules and data races on top of bbolt's MVCC; a sequential SSA symbolic executor has no schedule variable, bbolt's isolation is not encodable, and in the bbolt model it would hold by construction (DESIGN.md section 7)",
}

NOT_BUILT = "check not built yet in this round (planned: DESIGN.md section 6); not claimed until it runs clean"


def main():
    checks = []
    for pid in ALL:
        if pid in CHECKS:
            text, note, ref = CHECKS[pid]
            checks.append({
                "property_id": pid,
                "quick_cmd": "./check %s quick" % pid,
                "thorough_cmd": "./check %s thorough" % pid,
                "evidence_file": "/verif/evidence/%s.json" % pid,
                "replay_cmd_template": "./check replay {path}",
                "engine": "gosym",
                "level_claimed": {"category": "model_checking", "text": text, "design_ref": ref},
                "level_note": note,
                "technique": TECH,
            })
    na = []
    for pid in ALL:
        if pid in CHECKS:
            continue
        na.append({"property_id": pid, "reason": NOT_APPLICABLE.get(pid, NOT_BUILT)})
    m = {
        "version": 1,
        "setup_cmd": "cd /verif/engine && GOFLAGS=-mod=mod GOPROXY=off GOSUMDB=off GOTOOLCHAIN=local go build -o /verif/bin/gosym ./cmd/gosym",
        "hooks": {
            "guard": "verif",
            "enable": "harness files carry //go:build verif and are injected with go/packages Overlay (engine) and go test -overlay -tags verif (native replay); nothing is committed to /repo for hooks",
            "baseline_off_cmd": "cd /repo && GOFLAGS=-mod=mod go test -vet=off -count=1 ./...",
            "source_commits": [],
            "add_only": True,
        },
        "engines": [{
            "name": "gosym",
            "path": "/verif/engine",
            "serves_properties": sorted(CHECKS.keys()),
            "kind_free_text": "symbolic executor over go/ssa of /repo's working tree (fork of x/tools v0.29.0 go/ssa/interp) + SMT-LIB2 back end (z3 -in), replay-based DFS over decision vectors, native replay of every model",
        }],
        "checks": checks,
        "not_applicable": na,
        "notes": "All checks: exit 0 = every assertion discharged (unsat) on every feasible path within the bounds; exit 1 + VIOLATION line = a solver model that reproduces natively; exit 2 = inconclusive (solver unknown, unsupported construct, unwound, non-reproducing model) - never accompanied by a VIOLATION line. Known findings: /verif/known_findings.jsonl.",
    }
    out = os.path.join(os.path.dirname(os.path.dirname(os.path.abspath(__file__))), "MANIFEST.json")
    with open(out, "w") as f:
        json.dump(m, f, indent=1)
        f.write("\n")
    try:
        import jsonschema
        schema = json.load(open("/root/.vp/MANIFEST.schema.json"))
        jsonschema.validate(m, schema)
        print("MANIFEST.json valid;", len(checks), "checks,", len(na), "not applicable")
    except ImportError:
        print("jsonschema not available; not validated")


if __name__ == "__main__":
    main()
