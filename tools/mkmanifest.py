#!/usr/bin/env python3
"""Regenerates /verif/MANIFEST.json from the table below and validates it
against /root/.vp/MANIFEST.schema.json. Edit CHECKS / NOT_APPLICABLE here."""
import json, sys, os

ALL = ["C%02d" % i for i in range(1, 21)]

TECH = ("bounded symbolic execution of the real functions' go/ssa (regenerated from /repo on every run); "
        "inputs are SMT variables (QF_BV + FP), the property is an assertion, z3 decides every path; "
        "counterexamples and one witness per harness are replayed natively against the real build")

BASE_NOTE = ("Trusted base: the gosym executor (fork of x/tools go/ssa/interp + symbolic value layer), z3 4.8.12, "
             "the intrinsics listed in the evidence file (sync = no-op, goroutines inline, fixed map order). "
             "Bounded: nothing is claimed outside the bounds stated here and in DESIGN.md. ")

# id -> (text, note, design_ref)
CHECKS = {
    "C11": (
        "For every string s of <=4 (quick) / <=6 (thorough) bytes over printable ASCII + \\f\\n\\r\\t and every choice of "
        "escaping the control characters or not, the solver shows that the real zitiql.ParseZqlString maps the literal built "
        "by the reference escaper back to exactly s (injectivity is a corollary). Bounded model checking: all paths of the "
        "real function for those lengths are decided by z3; any model is replayed natively. Operand positions (=, !=, in, contains): the literal is arbitrary (<=2/3 bytes) or one "
        "of 13 longer texts spelling operator words and query syntax; the field value arbitrary: the typed query means the literal's exact string; four pairs of escaped "
        "literals inside one filter (in / or / and forms) each denote their own string; ids spliced by the store into its own delete filters denote themselves "
        "(the C04 any-id cascade step, also registered here).",
        BASE_NOTE + "Outside: longer strings, non-ASCII bytes, the ANTLR lexer's acceptance of the literal (grammar fragment), "
        "filters with more than two literals.",
        "6/C11"),
}

CHECKS["C13"] = (
    "Compound-key codec part of C13: for every list of <=3 strings of <=3 (quick) / <=4 (thorough) arbitrary bytes the solver shows "
    "DecodeStringSlice(EncodeStringSlice(x)) == x on every path of the real encode.go code (binary.PutUvarint/Uvarint interpreted from "
    "std source), equal encodings imply equal lists (<=2 x <=2 bytes), the uvarint pair round-trips every uint64, and components of "
    "127/128/129/4095/4096/4097 bytes (symbolic fill byte) round-trip or are rejected.",
    BASE_NOTE + "Typed scalars (string, optional string, int64, int32 widening, float64 bit patterns, bool, time incl. an arbitrary instant, nil), containers (maps / lists, "
    "nesting, empty containers), field-checker-restricted writes (every setter kind, null optional values included) and the read-modify-write setters "
    "(GetAndSetString / GetAndSetStringList) overwriting a stored string list with any list over old and new elements incl. repeats, and lists of 255 / 256 / 257 / 300 elements (top level and nested), the defaulting getters (stored value vs null / absent), a mapped field checker and TypedBucket.Copy under a path filter (scalars, nulls, buckets two levels down) are separate harnesses of the same check (see evidence).",
    "6/C13")
CHECKS["C14"] = (
    "For every strictly ordered set of <=3 byte strings of <=2 arbitrary bytes (empty string and shared prefixes included) "
    "and every script of <=2 (quick) / <=3 (thorough) Next/Seek steps with symbolic seek targets, the solver shows on every path that each cursor stands on the first "
    "admissible element or is invalid iff none exists: raw forward/reverse bolt cursors, typed forward/reverse bolt cursors (values without tag), "
    "tree-set cursor (any insertion order, both directions, empty set), filtered cursor (symbolic filter bits), union cursor (both directions). "
    "Store level, over 2 emps with symbolic ids (1..2 arbitrary bytes) and symbolic role / link membership, the same script against the cursors the store hands "
    "out: set-index value cursor and key cursor, link-collection cursor, related-entities cursor, IteratorMatchingAllOf / AnyOf, IterateIds, the typed "
    "string-list cursor, the ref-counted link collection's cursor, the set symbol's runtime cursor with SeekToString, and one runtime symbol re-opened row after row "
    "(no state carried from the previous row).",
    BASE_NOTE + "bbolt is replaced by the mbolt model (single-leaf buckets), validated against real bbolt v1.4.0 on 36k operation sequences; "
    "every counterexample is replayed on real bbolt. Outside: larger sets, longer elements, buckets spanning several pages.",
    "6/C14")

CHECKS["C03"] = (
    "One inductive step from an arbitrary valid state: 2 (quick) / 3 (thorough) entity slots, each absent or present with symbolic field values "
    "(unique name: one arbitrary byte; nullable / non-nullable unique nick: nil, empty or one arbitrary byte; roles: any subset of two values), built through the real "
    "Create, then one symbolic operation (create, full update, field-restricted update with a symbolic field checker, delete) with symbolic arguments run "
    "through the real DbImpl.Update / BaseStore code. The solver shows on every path that the operation is accepted iff the reference model accepts it "
    "(duplicate / empty non-nullable value rejected with UniqueIndexDuplicateError, missing entity as not-found), and that afterwards the entity fields and the "
    "raw unique-index and set-index buckets (and ReadIndex.Read / SetReadIndex.Read / ReadKeys) hold exactly what the successor state implies (no stale, extra or empty keys). One step from every valid state "
    "covers histories of any length over these bounds (thorough additionally runs a second operation from the state the first one left). Plus: a child-store entity and a plain one with arbitrary role sets; delete or role rewrite of the child "
    "entity through either store leaves the parent's indexes exact; and transactions of 2 (quick) / 3 (thorough) operations (create / update / delete with "
    "symbolic slots and names: value reuse after delete and swaps inside one transaction), accepted iff the model accepts each in turn, rolled back as a whole otherwise; and the same inductive step on a store whose indexed symbols are named unlike the fields they are stored under (AddSymbolWithKey; field checkers name the fields).",
    BASE_NOTE + "bbolt = mbolt model (validated against bbolt; rollback on error holds by construction and is assumed of bbolt). The three index kinds are "
    "checked in separate harnesses with the other fields fixed. Outside: longer values, more entities, set members that are empty strings.",
    "6/C03")
CHECKS["C12"] = (
    "Programs are enumerated (all boolean skeletons over distinct bool symbols and the literals true/false with <=3 (quick) / <=4 (thorough) connectives and/or/not, "
    "printed with minimal and full parentheses, upper/mixed case, extra whitespace, redundant parentheses; nested negation included; plus every case/whitespace spelling of in, between, "
    "contains, icontains and their not-forms, datetime literals with t/z case and blank/tab/newline padding inside the parentheses, and string literals that "
    "spell operator words; not (P) and not (not (P)) over 15 comparison atoms on int / float / datetime / string fields, null included) and parsed by the real lexer/parser natively; the recorded parse-tree walk is replayed against the real "
    "ToBoltListener, typer and evaluator inside the executor. Per program the solver decides equality with the formula the text was printed from for every "
    "truth assignment / field value.",
    BASE_NOTE + "The program dimension is enumerated, not symbolic (ANTLR's ATN interpreter is not encodable). `not (P)` directly left of a connective is "
    "now exercised as an ordinary operand (`not (P) and Q` = (not P) and Q). The precedence defect found here (KF-C12-and-or-precedence) is repaired in /repo e3d2e3a "
    "(listener level; the grammar cannot be regenerated without the ANTLR tool).",
    "6/C12")

CHECKS["C02"] = (
    "For 0..2 (quick) / 0..3 (thorough) rows with symbolic match bits and symbolic sort keys (nullable string <=1 byte, full-width int64, float64 bit patterns "
    "except NaN, bool, datetime), an enumerated list of sort specifications (id asc/desc, one key type per direction, two-field, five-field incl. the SortMax boundary, "
    "parsed by the real parser) and symbolic paging (skip absent or any int64; limit absent, none, or any int64), the solver shows that the real "
    "QueryIdsC -> uniqueIndexScanner / sortingScanner (row comparators, llrb from source, setPaging) returns count = number of matching rows, page length = "
    "min(limit, matches - max(skip,0)) and the rows of rank skip, skip+1, ... under the reference order (nulls first ascending, id tie-break); cursor-style "
    "iteration (IterateIds) returns the same page for unsorted queries; QueryWithCursorC over a caller-supplied cursor (an arbitrary subset of the rows) pages and "
    "sorts over exactly that subset.",
    BASE_NOTE + "Rows are stored through the real Create into the mbolt model. The five-field specification with arbitrary keys runs over two rows (quick: two of the four "
    "nullable keys symbolic, paging symbolic; thorough: all four symbolic, no paging). Datetime keys are arbitrary instants (year 1..9999, nanoseconds). Outside: more rows, longer strings, NaN sort keys.",
    "6/C02")
CHECKS["C04"] = (
    "One inductive step per fk wiring (nullable / non-null fk index, cascade-delete fk index, fk constraint restrict / cascade): arbitrary valid population of "
    "2 targets and 2 (quick) / 3 (thorough) referrers, one symbolic operation (create / update / field-restricted update with an existing, missing or nil target; "
    "delete referrer; delete target). Asserted on every path: accepted iff the target exists (or nil and nullable); back-reference buckets equal the current "
    "referrers exactly; delete of a referenced target is refused with ReferenceExistsError (restrict) or removes exactly the referrers (cascade). The AnyId "
    "harnesses repeat this with a symbolic target id (1..2/3 bytes over printable ASCII incl. quote and backslash, plus \\f\\n\\r\\t): the filter the delete path builds "
    "from the id goes through the recorded parse of the template and the real listener, typer, ParseZqlString and evaluator. Back-references are also read through "
    "GetRelatedEntitiesIdList / IsEntityRelated; thorough (fixed ids) runs either three referrers and one operation or two referrers and a history of two.",
    BASE_NOTE + "Also: a cascading delete inside a transaction that already wrote to the referrers' store (4 adjacent referrers; bbolt then iterates live nodes) and, "
    "for the nullable cascading fk constraint on a self-referencing store, every assignment of 3 emps to nil / themselves / each other (reference cycles included): "
    "exactly the transitive referrers go. A dept referenced with cascading deletes from two stores, deleted, re-created with new referrers and deleted again inside "
    "one transaction: each delete removes exactly the referrers of both stores. Self-references under restrict are not exercised (meaning not fixed by the statement). "
    "For a data-dependent filter the ANTLR front end is modelled by the recorded token stream of the template plus the grammar's STRING-body condition; "
    "native replay uses the real parser. Outside: non-ASCII ids, control characters other than the four escapable ones.",
    "6/C04")
CHECKS["C05"] = (
    "(a) SetLinks merge: three targets with symbolic distinct ids (1..2 arbitrary bytes), any current link set, any requested list of <=3/4 entries (any order, "
    "duplicates): afterwards both sides hold exactly the requested set. (b) Symmetry step over 2x2 entities from an arbitrary link matrix: AddLinks / RemoveLinks / "
    "SetLinks (lists with repeats), AddLink / RemoveLink with their changed flag, delete of either entity: both sides agree with the expected matrix, linking to a "
    "missing entity fails. (c) Ref-counted step: symbolic symmetric count (absent or 1..2^30), increment / decrement / SetLinkCount(any n in [0,2^31)) from either "
    "side / delete of either entity / link to a missing entity: both sides equal and positive, or both absent.",
    BASE_NOTE + "Also: links given as a field of the entity (PersistContext.SetLinkedIds) on create / update / patch with lists over two existing and one missing target; "
    "thorough runs a history of two operations in the symmetry harness; SetLinks / RemoveLinks / RemoveLink / AddLink (with their changed flags) over any subset of four adjacent targets inside the "
    "transaction that just linked them (live-node iteration, values not yet committed). Both sides are read from the raw list buckets and through GetLinks / IsLinked / IterateLinks. The one-sided compound-key primitives (AddCompoundLink / RemoveCompoundLink over lists of 0..2 strings of <=1 byte, AddLinkS): a list is linked iff it is the same list, removing another list removes nothing, a missing entity is refused. SetLinkCount with a negative count is outside (no documented meaning).",
    "6/C05")
CHECKS["C16"] = (
    "Population of 2 slots (absent / ordinary / system, symbolic), then one transaction of 2 (quick) / 3 (thorough) symbolic operations (create / update / delete, "
    "each through the ordinary context or the system context derived from it, each passing any value of IsSystem and Migrate, updates with or without a field checker; the transaction started by Db.Update or Db.Batch with an ordinary context or with a system context itself): the transaction is accepted iff no "
    "operation touches a system entity from the ordinary context; refused transactions change nothing; the stored flag always equals the one at creation. Second harness: system / ordinary entities reference an ordinary "
    "dept with a cascading delete (fk constraint or fk index); deleting the dept is refused from an ordinary context exactly when a system entity is among the "
    "referrers, and then nothing changes. Third harness: a child store layered on the system-entity store; an entity with child data (system or not) is updated "
    "(with or without a field checker) or deleted through either store from either context: allowed iff not a system entity or the context is a system context; "
    "a refused change leaves the database as it was.",
    BASE_NOTE + "time.Now is a fixed instant.",
    "6/C16")
CHECKS["C19"] = (
    "The in-memory ObjectStore is checked against the same reference model as C02 (and the null rules of C01): 0..2/3 objects with nullable symbolic fields, "
    "enumerated filters over non-set symbols (= null, != null, comparisons, and/or, bare bool; string, int64, float64, bool and datetime symbols - datetimes "
    "arbitrary instants of year 1..9999) x sort specifications, symbolic skip/limit; real "
    "memSortingScanner, object comparators, ObjectCursor; then a second query on the same store object with the sort directions reversed. Both stores equal one "
    "spec, hence each other.",
    BASE_NOTE + "Outside: more objects, longer strings.",
    "6/C19")

CHECKS["C06"] = (
    "An emp with symbolic unique name, nullable unique nick (nil/empty/value), any roles subset, optional fk reference to a dept (back-reference), optional "
    "links and a ref-counted link (count 0..2) to depts, with or without child-store data, next to a bystander sharing targets, is deleted through the parent or "
    "the child store: afterwards a walk over every bucket, key and value finds the id nowhere (bare or type-tagged), boltz.ValidateDeleted agrees, the bystander "
    "and its links are untouched, and the id with its old unique values can be created again with no links and no child data. Same for a dept that is linked "
    "and ref-count-linked from emps, and for a parent with an extended child store plus a second child store owning a unique index (delete through any of the three). After the delete the repository's "
    "own integrity checker reports nothing (indexes and links still mirror the remaining entities). Further: an emp and a dept with the SAME id referencing / linking "
    "each other (the emp's delete leaves the dept and no back-reference), and a cascading delete of a dept with 4 adjacent referrers inside a transaction that "
    "already wrote to their store (no dangling reference value remains); cascades from two referring stores, repeated for one id inside one transaction; DeleteWhere "
    "removes exactly the matching entities without a trace; a cascading delete refused half way (system entity among the referrers) and retried on the same "
    "mutate context as a system context cascades completely; an entity linked and ref-count-linked to any subset of four adjacent depts (from either side) and "
    "deleted in the same transaction leaves no trace.",
    BASE_NOTE + "Victim id is a fixed string distinct from every symbolic value. Restricting wirings and cascade are C04's subject.",
    "6/C06")
CHECKS["C07"] = (
    "Arbitrary population of 2 slots (absent / plain parent / parent+child, symbolic names), then a Db.Update (1 op quick, 2 thorough) or Db.Batch body of "
    "symbolic operations (create through parent or child store, update through either, field-restricted updates incl. one whose first field is rejected by its "
    "setter while later fields are valid, delete through either, create with blank id) "
    "under a symbolic failure schedule: constraint veto per change type, duplicate unique value, missing entity, caller error after the body, either of two "
    "pre-commit actions failing. Asserted: each store call returns an error iff one of its steps was rejected; the transaction returns an error iff anything "
    "failed; then no entity event, commit action or tx-complete listener ran and the stored state equals the pre-state; otherwise the state is the model's. "
    "Second harness: a manager (parent + child data) referenced by a team through a restricting fk index on the CHILD store: the delete, through either store, "
    "is refused iff referenced, reaches the caller, changes nothing and fires no event. Storage errors: (i) a unique name / nick of 32768 vs 32769 bytes "
    "(bbolt's key limit) arriving by create or update after an earlier successful create in the same transaction; (ii) from a fixed population, each of 14 "
    "operations (create / update / delete through parent and child store, patch, AddLinks / SetLinks / RemoveLinks, Increment / Decrement / SetLinkCount, "
    "CheckIntegrity in fix mode with repair work to do) with the "
    "k-th Bucket.Put of the transaction failing, k symbolic in 1..14 (quick) / 1..30 (thorough): if the fault was delivered the operation and the transaction "
    "return an error, the database is as before and no event fires. The first pre-commit action is registered inside the body or on the context before the "
    "transaction (Db.Batch re-runs a failing body on its own, modelled as such); the operations run directly or inside a nested Db.Update / Db.Batch on the same context. "
    "An update naming an existing / missing fk target (fk index or fk constraint wiring, with or without field checker) of a plain or child-store entity through "
    "either store of the family: rejected iff missing, then nothing changes and no event fires.",
    BASE_NOTE + "'Database left exactly as before' rests on bbolt's rollback, which the mbolt model has by construction (assumed of bbolt); what is checked "
    "is that the error which triggers it always reaches the caller. Storage faults are injected at Bucket.Put only: natively through the failpoint bbolt's "
    "authors placed there (gofail marker beforeBucketPut, enabled by a build overlay of bbolt's bucket.go), in the model at the same position; failing Delete / "
    "CreateBucket / commit are outside (bbolt offers no failpoint there, so a model-only fault could not be replayed).",
    "6/C07")
CHECKS["C08"] = (
    "Same machinery with 2 (quick) / 3 (thorough) operations per transaction and every registration style on parent and child store (typed listener, function, "
    "untyped, id-only, typed constraint, untyped constraint; each for create+update+delete): the recorded event log equals, element by element, the log derived "
    "from the model: one delivery per listener per committed change, final state for create/update (the stored one, also for field-restricted updates), last state "
    "for delete, child changes once more on the parent store flagged as parent event, none for plain parent entities on the child store, nothing for failed "
    "transactions, commit actions and tx-complete listeners once. Plus: one MutateContext carrying two transactions in a row (each failing or committing, symbolic): "
    "the delivered events are exactly those of the committed ones; and a parent with two child stores where the entity lives in either: create / update / delete "
    "through any store of the family is heard once on its child store, once on the parent, never on the sibling; and the operations run inside a nested "
    "Db.Update on the transaction's context (still one transaction: events, commit actions and tx-complete listeners once); two creates from one re-used caller struct: each event carries what was "
    "committed for its entity.",
    BASE_NOTE + "Commit actions run in a goroutine in the real code; the executor runs it inline (one schedule), the native replay waits for it. *Async event types are not exercised.",
    "6/C08")
CHECKS["C09"] = (
    "A consistent population (2 emps with symbolic names, roles, nullable unique nick nil/empty/value, fk references and links to 2 depts) is reported clean and "
    "left unchanged in check and fix mode. Entity and dept ids are in prefix relation (a / ab, x / xy). With one corruption injected below the API out of 17 classes (unique index: missing / extra for a missing entity / stale "
    "entry / stale entry of the nullable index pointing at an entity whose field is null; set index: missing member, extra member, member of a missing entity, empty key, non-bucket key; fk: missing back-reference, missing back-reference "
    "bucket, extra back-reference, back-reference of a missing entity, dangling nullable reference; links: one-sided either way, dangling): check mode reports it, "
    "marks nothing fixed and leaves the logical content unchanged; one fix run reports it and an immediate re-check is clean with unique/set indexes, "
    "back-references and links again mirroring the entities. Second harness (fixed population): every class together with a second, ghost entry of each of the four "
    "families (same family: keys adjacent to the first one's), the fix run issued first in its transaction or after the transaction already wrote to the index "
    "buckets: both are reported and one fix run converges. Third harness: dangling references under a nullable fk constraint or fk index whose symbol is named like its "
    "storage key or differently (AddFkSymbolWithKey): reported, cleared by one fix run, valid references untouched.",
    BASE_NOTE + "Logical content = every key/value and every non-empty bucket (the code creates empty field/index buckets lazily, also on read paths). "
    "Pairs of corruptions are exercised on a fixed population only; larger subsets and genuine conflicts (duplicate unique values) are not injected.",
    "6/C09")
CHECKS["C15"] = (
    "Parent store + child store (plain and Extended), 2 slots each absent / plain parent / parent+child with symbolic names and child field; one symbolic "
    "operation through either store (create, update, delete, DeleteWhere with a filter on the shared field, patch through the child naming only the child field, patch through the parent naming only the shared "
    "field; empty and duplicate names included); every entity holds a role (parent set index) and a link to a dept (parent link collection). Asserted on every path: accepted iff the reference model "
    "accepts it (the parent's non-nullable unique index applies to both stores); parent part, child data, shared field, parent unique index, parent set index and the dept's member list exactness; child store "
    "FindById / QueryIds / sorted QueryIds with limit / IterateValidIds return exactly the entities with child data (all parent entities for lookups and queries "
    "when extended); parent store queries return every entity.",
    BASE_NOTE + "The child update handler's mapper is the harness's (copies the caller's shared fields onto the stored child). Create through the child store of an "
    "existing plain parent id and delete (DeleteById / DeleteWhere) through an extended child store of an entity without child data are outside (not constrained by the statement).",
    "6/C15")

CHECKS["C01"] = (
    "Three layers against one reference semantics (DESIGN.md appendix A.1). (1) Comparison kernel: ~110 programs (every operator x literal kind the grammar "
    "admits on string / int64 / float64 / bool / datetime fields: six comparisons, null tests, in / not in with string, int, float and datetime arrays, between "
    "with inclusive lower and exclusive upper bound, contains / icontains and negations, int-to-float and number-to-string coercion, connectives), field value "
    "null or symbolic (strings <=2/3 bytes, full-width int64, all float64 bit patterns, datetimes arbitrary instants of year 1..9999 with nanoseconds, datetime literals also written with a zone offset): real typer + evaluator == spec. "
    "(2)+(3) Through the store on symbolic populations of 2 (quick) / 3 (thorough) entities: anyOf / allOf / count / isEmpty over a direct string set (elements "
    "arbitrary bytes; the index-seek shortcut is compared with the scan semantics), scalars, fk-dotted symbols, the back-reference set, three-level set paths, "
    "sub-queries (also with their own skip / limit, evaluated afresh for every outer row), map elements holding a string / int64 / bool / nothing, float64 / bool / datetime (arbitrary instants) / int32-stored fields incl. dotted access, function symbols (NewStringFuncSymbol / "
    "NewBoolFuncSymbol), a field under an aliased symbol name and under a NotNilStringMapper: QueryIds returns exactly the satisfying ids, once each, with the right "
    "count, and IterateIds with the same filter yields the same ids.",
    BASE_NOTE + "Programs are enumerated (parsed by the real parser natively, replayed into the real listener). Known finding KF-C01-null-bool-reads-false. "
    "Outside: decimal rendering of a symbolic integer beyond [-10,10] and of a symbolic float (paths cut and listed in the evidence), Unicode case folding, int sets.",
    "6/C01")
CHECKS["C10"] = (
    "Typing / evaluation half of C10. ~900 grammatical sentences covering every left operand kind (fields of each type, map element, set used as scalar, "
    "unknown symbol, anyOf / allOf / count incl. sub-query) x every operator form x every literal kind (ill-typed mixes included), bool forms, isEmpty, sort / skip / "
    "limit, string literals with escapes: the real lexer/parser (native) + listener + typer return a query or an error, never a panic; every typed query is then "
    "evaluated over symbolic data (each field null or not, sets empty or not, symbolic values) without panicking. Store level: 25 symbol kinds of one store (scalars of every "
    "type, id, set, fk, dotted scalar, set reached through a fk, set of sets, map element, map, function symbols, mapped symbol, unknown) x bare / anyOf / allOf / count x "
    "seven operator forms, isEmpty, sub-query filter and source positions, sort field (1750 queries) on all-null and on cross-referencing entities; and every query shape on a never-"
    "written store, an emptied store, one and three entities with all fields null (sorting compares null with null; QueryIds, IterateIds, IterateValidIds); cursor constructors on empty inputs.",
    BASE_NOTE + "Rejection of unrecognised characters is checked for an enumerated family only: four base queries x every insertion position outside a string "
    "literal x 26 characters that occur in no token, blank-like ones (\\f, \\v, NEL, NBSP, LS, ideographic space) included (2106 texts), each parsed by the real lexer/parser natively (the result is what the executor replays): all are "
    "rejected without a panic. NOT claimed: termination / no-panic / rejection for arbitrary byte strings (the ATN interpreter is not encodable; DESIGN.md section 7).",
    "6/C10")
CHECKS["C17"] = (
    "(1) Snapshot / restore round trip through the real Snapshot and RestoreFromReader: state A (1-2 indexed entities, symbolic name), snapshot, one further "
    "committed transaction of any of five kinds (nothing, create, delete, update, delete all), restore of the snapshot file: the logical content outside the "
    "metadata bucket equals state A, the stores serve state A again, the database reports the snapshot id Snapshot returned, the restore listener fired once, "
    "the next timeline-id request returns a fresh id exactly once; then optionally further committed work and a second restore of the same snapshot with the same assertions (listener fired twice). (2) Marker / timeline slice: from an arbitrary metadata state (reset marker absent / true / false, stored timeline id absent or a symbolic string) a "
    "GetTimelineId request in any of the three modes with a succeeding or failing id source: a fresh id is produced exactly when due, stored, the marker cleared; "
    "otherwise the stored id is returned without consulting the source; a failing source changes nothing; the following request returns the same id (fresh exactly "
    "once). Snapshot (real code incl. SnapshotInTx and MarkAsSnapshot over the modelled CopyFile/Open) marks the copy, not the live database; the copy reports the "
    "returned snapshot id, carries the snapshot-time content and yields a fresh timeline id exactly once.",
    BASE_NOTE + "Database files are entries of the bbolt model's registry (path -> database image): os.Create / os.Open / io.Copy / os.Rename / os.Remove / File.Close act on it, "
    "tx.CopyFile forks an image; the native replay uses real files. NOT claimed (DESIGN.md section 7): byte-level equality of the copied file, I/O errors during "
    "the restore, and atomicity with respect to concurrent transactions - scheduling is not encodable.",
    "6/C17")
CHECKS["C20"] = (
    "68 typed queries covering every AST node kind that can reference a symbol (comparisons of each type incl. int-to-float conversion nodes, in / between / "
    "contains / icontains subjects, null tests, bare bool, map elements, set functions, dotted symbols, sub-queries, sort fields); per query every public / "
    "non-public assignment of the symbols it references (symbolic bits, plus an independent bit making only the first segment of a dotted symbol public): "
    "ValidateSymbolsArePublic accepts iff all referenced symbols are public (map elements iff their map), and a rejection is an UnknownSymbolError naming a "
    "referenced non-public symbol. Queries naming a symbol and a dotted symbol that starts with it (boss, boss.s) get independent bits. Elements of nested maps (tags.a.b.c) included. Validations do not influence each other: after a rejection an unrelated "
    "acceptable query passes and the same query passes once its symbols are published.",
    BASE_NOTE + "Node kinds are covered through the query family; the evidence lists, from go/types, which AST node types' Accept the family executed "
    "(ast_node_kinds_visited) and which not (outside_claim; currently only node types that never occur in a typed query).",
    "6/C20")

NOT_APPLICABLE = {
    "C18": "quantifies over goroutine schedules and data races on top of bbolt's MVCC; a sequential SSA symbolic executor has no schedule variable, bbolt's isolation is not encodable, and in the bbolt model it would hold by construction (DESIGN.md section 7)",
}

NOT_BUILT = "check not built yet in this round (planned: DESIGN.md section 6); not claimed until it runs clean"


def main():
    checks = []
    for pid in ALL:
        if pid in CHECKS:
            text, note, ref = CHECKS[pid]
            checks.append({
                "property_id": pid,
                "quick_cmd": "./check %s quick" % pid,
                "thorough_cmd": "./check %s thorough" % pid,
                "evidence_file": "/verif/evidence/%s.json" % pid,
                "replay_cmd_template": "./check replay {path}",
                "engine": "gosym",
                "level_claimed": {"category": "model_checking", "text": text, "design_ref": ref},
                "level_note": note,
                "technique": TECH,
            })
    na = []
    for pid in ALL:
        if pid in CHECKS:
            continue
        na.append({"property_id": pid, "reason": NOT_APPLICABLE.get(pid, NOT_BUILT)})
    m = {
        "version": 1,
        "setup_cmd": "cd /verif/engine && GOFLAGS=-mod=mod GOPROXY=off GOSUMDB=off GOTOOLCHAIN=local go build -o /verif/bin/gosym ./cmd/gosym",
        "hooks": {
            "guard": "verif",
            "enable": "harness files carry //go:build verif and are injected with go/packages Overlay (engine) and go test -overlay -tags verif (native replay); nothing is committed to /repo for hooks",
            "baseline_off_cmd": "cd /repo && GOFLAGS=-mod=mod go test -vet=off -count=1 ./...",
            "source_commits": [],
            "add_only": True,
        },
        "engines": [{
            "name": "gosym",
            "path": "/verif/engine",
            "serves_properties": sorted(CHECKS.keys()),
            "kind_free_text": "symbolic executor over go/ssa of /repo's working tree (fork of x/tools v0.29.0 go/ssa/interp) + SMT-LIB2 back end (z3 -in), replay-based DFS over decision vectors, native replay of every model",
        }],
        "checks": checks,
        "not_applicable": na,
        "notes": "All checks: exit 0 = every assertion discharged (unsat) on every feasible path within the bounds; exit 1 + VIOLATION line = a solver model that reproduces natively; exit 2 = inconclusive (solver unknown, unsupported construct, unwound, non-reproducing model) - never accompanied by a VIOLATION line. Known findings: /verif/known_findings.jsonl.",
    }
    out = os.path.join(os.path.dirname(os.path.dirname(os.path.abspath(__file__))), "MANIFEST.json")
    with open(out, "w") as f:
        json.dump(m, f, indent=1)
        f.write("\n")
    try:
        import jsonschema
        schema = json.load(open("/root/.vp/MANIFEST.schema.json"))
        jsonschema.validate(m, schema)
        print("MANIFEST.json valid;", len(checks), "checks,", len(na), "not applicable")
    except ImportError:
        print("jsonschema not available; not validated")


if __name__ == "__main__":
    main()
