#!/bin/sh
# usage: tools/runall.sh [quick|thorough] [ids...]   - runs the registered checks sequentially, prints one line each
cd "$(dirname "$0")/.."
tier="${1:-quick}"; shift 2>/dev/null
ids="$@"
[ -z "$ids" ] && ids=$(python3 -c "import json; print(' '.join(c['property_id'] for c in json.load(open('MANIFEST.json'))['checks']))")
for id in $ids; do
  s=$(date +%s)
  out=$(./check $id $tier 2>&1); rc=$?
  e=$(date +%s)
  echo "$id rc=$rc $((e-s))s :: $(echo "$out" | grep -v '^KNOWN-FINDING' | tail -1 | cut -c1-160)"
  echo "$out" | grep -E '^(VIOLATION|INCONCLUSIVE|KNOWN-FINDING)' | cut -c1-200 | head -5
done
