#!/usr/bin/env python3
"""Lists the functions and methods of /repo's packages (boltz, ast, objectz,
zitiql; generated parser files and tests excluded) that no check executed,
from the `functions_encoded` lists of /verif/evidence/*.json.

A function that no harness reaches is a blind spot of every check: this list
is how round 3 found harness material (function symbols, links through entity
persistence, DeleteWhere, ...). Usage: tools/apicoverage.py [-v]
"""
import glob, json, os, re, sys

REPO = os.environ.get("VERIF_REPO", "/repo")
HERE = os.path.dirname(os.path.dirname(os.path.abspath(__file__)))
GENERATED = ("zitiql_parser.go", "zitiql_lexer.go", "zitiql_listener.go", "zitiql_base_listener.go")
NOISE = {"String", "IsConst", "GetType", "Label", "Error"}  # rendering / trivial accessors


def normalise(name):
    name = re.sub(r"\[[^\[\]]*\]", "", name)  # type arguments / parameters
    return name.replace("github.com/openziti/storage/", "")


def main():
    verbose = "-v" in sys.argv
    encoded = set()
    for f in glob.glob(os.path.join(HERE, "evidence", "C*.json")):
        d = json.load(open(f))
        for fe in d.get("coverage", {}).get("functions_encoded", []):
            encoded.add(normalise(fe["name"]))
    src = {}
    for pkg in ("boltz", "ast", "objectz", "zitiql"):
        for f in sorted(glob.glob(os.path.join(REPO, pkg, "*.go"))):
            base = os.path.basename(f)
            if base.endswith("_test.go") or base in GENERATED:
                continue
            for line in open(f):
                m = re.match(r"func (\((\w+) (\*?)(\w+)(\[[^\]]*\])?\) )?(\w+)", line)
                if not m:
                    continue
                recv, star, name = m.group(4), m.group(3), m.group(6)
                if recv:
                    n = "(%s%s.%s).%s" % (star, pkg, recv, name)
                else:
                    n = "%s.%s" % (pkg, name)
                src[n] = (pkg + "/" + base, name)
    missing = {}
    for n, (f, name) in src.items():
        if n in encoded:
            continue
        if name in NOISE and not verbose:
            continue
        missing.setdefault(f, []).append(n)
    total = len(src)
    nmiss = sum(len(v) for v in missing.values())
    print("%d functions in the four packages, %d executed by some check, %d not (rendering/trivial accessors %s)" % (
        total, total - nmiss, nmiss, "included" if verbose else "left out: -v lists them"))
    for f in sorted(missing):
        print("%s (%d)" % (f, len(missing[f])))
        print("    " + ", ".join(sorted(x.split(").")[-1] if ")." in x else x.split(".")[-1] for x in missing[f])))


if __name__ == "__main__":
    main()
