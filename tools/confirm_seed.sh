#!/bin/bash
# usage: tools/confirm_seed.sh <PROP> <mN> [diff-file]
# Confirms a seeded change in a scratch worktree of /repo (suite passes with the
# change; demo fails with it and passes without), runs the property's quick
# check against it, and archives it under /verif/seeded/<PROP>-<mN>/.
set -u
P=$1; M=$2; SRC=${SEED_SRC:-/tmp/seedout}/$P; TAG=${SEED_TAG:-}
DIFF=${3:-$SRC/$M.diff}
export GOFLAGS=-mod=mod GOPROXY=off GOSUMDB=off GOTOOLCHAIN=local
WT=/tmp/confirm-$P-$M
git -C /repo worktree remove --force $WT 2>/dev/null
git -C /repo worktree add -q --detach $WT HEAD || exit 2
demo=$SRC/${M}_demo_test.go
place=$(head -1 $demo | grep -o '[a-z]*/[A-Za-z0-9_]*_test\.go' | head -1)
[ -z "$place" ] && place=boltz/zz_demo_${M}_test.go
pkg=$(dirname $place)
res=""
# demo without the change
cp $demo $WT/$place
( cd $WT && go test -vet=off -count=1 ./$pkg -run 'Demo|ZzDemo' >/tmp/confirm.out 2>&1 ); r0=$?
# apply change
if ! git -C $WT apply -3 $DIFF 2>/dev/null; then echo "$P $M: patch does not apply"; git -C /repo worktree remove --force $WT; exit 2; fi
( cd $WT && go test -vet=off -count=1 ./$pkg -run 'Demo|ZzDemo' >/tmp/confirm1.out 2>&1 ); r1=$?
rm $WT/$place
( cd $WT && go build ./... && go test -vet=off -count=1 ./... >/tmp/confirm2.out 2>&1 ); r2=$?
( cd $WT && git diff HEAD -- . ':!*_test.go' ) > /tmp/confirm-$P-$M.diff
echo "$P $M: demo-without=$r0 demo-with=$r1 suite-with=$r2"
if [ $r0 -ne 0 ] || [ $r1 -eq 0 ] || [ $r2 -ne 0 ]; then echo "$P $M: NOT CONFIRMED"; git -C /repo worktree remove --force $WT; exit 1; fi
# run our check against the scratch worktree (the change is applied there; /repo is untouched)
mkdir -p /tmp/seed-evidence
out=$(cd /verif && VERIF_REPO=$WT VERIF_EVIDENCE_DIR=/tmp/seed-evidence VERIF_BUDGET_MIN=12 timeout 1200 ./bin/gosym check $P quick 2>&1); rc=$?
git -C /repo worktree remove --force $WT
caught=no; [ $rc -eq 1 ] && caught=yes
labels=$(echo "$out" | grep 'violation:' | sed 's/.*harness=\([A-Za-z0-9_]*\).*/\1/' | sort -u | tr '\n' ' ')
D=/verif/seeded/$P-$M$TAG; mkdir -p $D
cp /tmp/confirm-$P-$M.diff $D/patch.diff; cp $demo $D/demo_test.go; cp $SRC/$M.md $D/notes.md 2>/dev/null
python3 - "$P" "$M$TAG" "$place" "$caught" "$rc" "$labels" <<'PY'
import json,sys,subprocess
P,M,place,caught,rc,labels=sys.argv[1:7]
notes=open(f'/verif/seeded/{P}-{M}/notes.md').read()
meta={"property":P,"id":f"{P}-{M}","demo_placement":place,
 "breaks":"see notes.md (written by the independent sub-agent that produced the change from the property text alone)",
 "needs_to_manifest":notes[:1200],
 "confirmed":{"suite_passes_with_change":True,"demo_fails_with_change":True,"demo_passes_without_change":True,
   "how":"tools/confirm_seed.sh in a scratch worktree of /repo at "+subprocess.check_output(['git','-C','/repo','log','--format=%h','-1']).decode().strip()},
 "check_result":{"command":f"./check {P} quick","exit_code":int(rc),"caught":caught=="yes","harnesses_reporting":labels.split()}}
json.dump(meta,open(f'/verif/seeded/{P}-{M}/meta.json','w'),indent=1)
PY
echo "$P $M: check rc=$rc caught=$caught [$labels]"
